#!/venv/bin/python
"""Static verification driver for python-diskcache properties C01..C20.

usage: check.py <ID> [--tier quick|thorough]
       check.py --self-check
       check.py --explain <replay.json>
       check.py --all [--tier ...]

exit 0: every obligation discharged (or listed as known finding)
exit 1: VIOLATION line(s) printed
exit 2: ANALYSIS-ERROR (the analysis itself could not run: never a verdict)
"""
import json
import os
import re
import sys
import time
import traceback

HERE = os.path.dirname(os.path.abspath(__file__))
sys.path.insert(0, HERE)

from sa.model import AnalysisError  # noqa: E402
from sa.framework import Ctx, RULES  # noqa: E402
from sa import props  # noqa: E402

EVID = os.environ.get('VERIF_EVIDENCE_DIR') or os.path.join(HERE, 'evidence')
KNOWN = os.path.join(HERE, 'known_findings.json')

ASSUMPTIONS = [
    'A1 Python semantics of with/generators/contextlib.contextmanager/ExitStack',
    'A2 SQLite semantics: BEGIN IMMEDIATE takes the write lock or fails busy, WAL atomic commit, lock release on '
    'process death, per-row triggers, 3-valued NULL logic, type ordering, NaN stored as NULL',
    'A3 no monkey patching; Disk subclasses other than JSONDisk out of scope; receiver typing table of DESIGN 3.2',
    'A4 frozen role tables of DESIGN Appendix A were confirmed by reading the pinned tree',
    'A5 sqlite3/pickle/json/zlib modules are correct',
]


def load_known():
    if not os.path.exists(KNOWN):
        return []
    with open(KNOWN) as f:
        return json.load(f)['findings']


def run_property(pid, tier, ctx=None, quiet=False):
    t0 = time.time()
    spec = props.PROPS[pid]
    ctx = ctx or Ctx(tier=tier)
    known = load_known()
    known_keys = {}
    for k in known:
        if k.get('status') == 'known':
            for key in k['keys']:
                known_keys[key] = k
    obligations = []
    per_rule = {}
    out = []
    errors = []
    for entry in spec['rules']:
        rid, flt = (entry, None) if isinstance(entry, str) else entry
        fn = RULES.get(rid)
        if fn is None:
            raise AnalysisError('rule %s listed for %s is not implemented' % (rid, pid))
        cache = ctx.__dict__.setdefault('_rule_results', {})
        if rid not in cache:
            try:
                cache[rid] = fn(ctx)
            except AnalysisError as e:
                cache[rid] = e
        obs = cache[rid]
        if isinstance(obs, AnalysisError):
            errors.append('rule %s: %s' % (rid, obs))
            continue
        if len(obs) < fn.floor:
            errors.append('rule %s produced %d obligations, below its floor %d: an anchor vanished or the matcher '
                          'went blind' % (rid, len(obs), fn.floor))
            continue
        if flt is not None:
            rx = re.compile(flt)
            obs = [o for o in obs if rx.search(o.key)]
            if not obs:
                errors.append('rule %s has no obligation matching %r for %s: an anchor vanished' % (rid, flt, pid))
                continue
        per_rule[rid] = obs
        obligations.extend(obs)
    viol = []
    knownhits = []
    for ob in obligations:
        if ob.ok:
            continue
        full = ob.rule + ':' + ob.key
        if full in known_keys:
            knownhits.append((ob, known_keys[full]))
        else:
            viol.append(ob)
    wall = time.time() - t0
    # ---- report
    out.append('property %s tier=%s: %d modules, %d functions analysed, %d paths, %d events, %d sql sites, '
               '%d calls resolved' % (pid, tier, len(ctx.prog.modules), len(ctx.stats['functions']),
                                      ctx.stats['paths'], ctx.stats['events'], len(ctx.sql_sites),
                                      ctx.stats['calls_resolved']))
    for rid, obs in per_rule.items():
        bad = [o for o in obs if not o.ok]
        out.append('  rule %-4s %-62s obligations=%-3d failed=%d' % (rid, RULES[rid].title[:62], len(obs), len(bad)))
    seen_known = set()
    for ob, k in knownhits:
        out.append('KNOWN-FINDING: property=%s %s [%s:%s] %s (%s)' % (pid, k['id'], ob.rule, ob.key, k['what'], ob.loc))
    os.makedirs(os.path.join(EVID, 'replay'), exist_ok=True)
    withheld = []
    if viol:
        from sa.framework import unmodelled_constructs
        um = unmodelled_constructs(ctx)
        if um:
            # the tree uses constructs outside the modelled subset: a failed obligation may be the analysis losing
            # track, not the code being wrong - no verdict (fail closed, exit 2), the constructs are named
            errors.append('verdict withheld: %d obligation(s) could not be established (%s) and the tree uses '
                          'constructs outside the modelled subset: %s' % (
                              len(viol), ', '.join('%s:%s' % (o.rule, o.key) for o in viol[:6]) +
                              (' ...' if len(viol) > 6 else ''), '; '.join(um[:6]) + (' ...' if len(um) > 6 else '')))
            withheld, viol = viol, []
    for ob in viol:
        rp = os.path.join(EVID, 'replay', '%s-%s.json' % (pid, safe(ob.rule + '-' + ob.key)))
        with open(rp, 'w') as f:
            json.dump({'property': pid, 'obligation': ob.as_dict(), 'tree_digest': ctx.prog.digest,
                       'explain_cmd': './check.py --explain %s' % rp}, f, indent=1)
        out.append('VIOLATION property=%s replay=%s' % (pid, rp))
        out.append('  rule %s [%s] at %s: %s' % (ob.rule, ob.key, ob.loc, ob.msg))
        for w in ob.witness[:25]:
            out.append('    | ' + w)
    # ---- evidence
    samples = []
    for rid, obs in per_rule.items():
        for ob in obs[:2]:
            samples.append(ob.as_dict())
    distinct = len({(o.rule, o.key) for o in obligations if o.nontrivial})
    ev = {
        'property_id': pid,
        'tier': tier,
        'seed': int(os.environ.get('VERIF_SEED', '0') or 0),
        'level': 'other',
        'coverage': {
            'explanation': spec['explanation'],
            'not_decided': spec['not_decided'],
            'technique': spec['technique'],
            'obligations': len(obligations),
            'discharged': sum(1 for o in obligations if o.ok),
            'known_findings': sorted({k['id'] for _, k in knownhits}),
            'evaluations': len(obligations),
            'distinct_nontrivial': distinct,
            'rule': 'one evaluation = one obligation (rule instance at a resolved construct: function, SQL '
                    'statement, call site, path class); non-trivial = the site actually exercises the rule; '
                    'distinct = distinct (rule, construct key)',
            'rules': {rid: {'title': RULES[rid].title, 'obligations': len(obs),
                            'failed': sum(1 for o in obs if not o.ok), 'floor': RULES[rid].floor}
                      for rid, obs in per_rule.items()},
            'functions_analysed': len(ctx.stats['functions']),
            'paths_enumerated': ctx.stats['paths'],
            'events': ctx.stats['events'],
            'sql_sites': len(ctx.sql_sites),
            'calls_resolved': ctx.stats['calls_resolved'],
            'tree_digest': ctx.prog.digest,
            'samples': samples[:12],
            'exhaustive': True,
            'checker_cmd': '/venv/bin/python check.py %s --tier %s' % (pid, tier),
            'trusted_base': ASSUMPTIONS,
        },
        'assumptions': ASSUMPTIONS,
        'wall_s': round(wall, 3),
        'violations': len(viol),
    }
    if errors:
        ev['coverage']['analysis_errors'] = errors
    if withheld:
        ev['coverage']['verdict_withheld_for'] = ['%s:%s' % (o.rule, o.key) for o in withheld]
    os.makedirs(EVID, exist_ok=True)
    with open(os.path.join(EVID, pid + '.json'), 'w') as f:
        json.dump(ev, f, indent=1, default=str)
    for e in errors:
        out.append('ANALYSIS-ERROR property=%s %s' % (pid, e))
    if not quiet:
        print('\n'.join(out))
    if viol:
        return 1
    return 2 if errors else 0


def safe(s):
    return ''.join(c if c.isalnum() or c in '-_.' else '_' for c in s)[:150]


def main(argv):
    tier = os.environ.get('VERIF_TIER') or 'quick'
    if '--tier' in argv:
        i = argv.index('--tier')
        tier = argv[i + 1]
        del argv[i:i + 2]
    if tier not in ('quick', 'thorough'):
        tier = 'quick'
    try:
        if not argv:
            print(__doc__)
            return 2
        if argv[0] == '--self-check':
            ctx = Ctx(tier=tier)
            print('self-check ok: %d modules, %d classes, %d functions, roles: %s, %d rules registered' % (
                len(ctx.prog.modules), len(ctx.prog.classes), len(ctx.prog.funcs),
                ', '.join('%s=%s' % (k, v.qual) for k, v in ctx.prog.roles.items()), len(RULES)))
            return 0
        if argv[0] == '--explain':
            with open(argv[1]) as f:
                rp = json.load(f)
            pid = rp['property']
            rc = run_property(pid, tier, quiet=True)
            ctx = Ctx(tier=tier)
            want = rp['obligation']
            found = False
            for entry in props.PROPS[pid]['rules']:
                rid = entry if isinstance(entry, str) else entry[0]
                if rid != want['rule']:
                    continue
                for ob in RULES[rid](ctx):
                    if ob.key == want['key']:
                        found = True
                        print('%s [%s] at %s: %s -> %s' % (ob.rule, ob.key, ob.loc, ob.msg, 'ok' if ob.ok else 'FAILS'))
                        for w in ob.witness:
                            print('    | ' + w)
            if not found:
                print('obligation %s:%s no longer exists on the current tree' % (want['rule'], want['key']))
            return 0
        if argv[0] == '--all':
            rcs = []
            ctx = Ctx(tier=tier)
            for pid in sorted(props.PROPS):
                try:
                    rcs.append(run_property(pid, tier, ctx=ctx))
                except AnalysisError as e:
                    print('ANALYSIS-ERROR property=%s %s' % (pid, e))
                    rcs.append(2)
            return 1 if 1 in rcs else (2 if 2 in rcs else 0)
        pid = argv[0]
        if pid not in props.PROPS:
            print('ANALYSIS-ERROR unknown property %s' % pid)
            return 2
        rc = run_property(pid, tier)
        if tier == 'thorough':
            try:
                from sa import selftest
                selftest.run_for_property(pid)
            except ImportError:
                pass
        return rc
    except AnalysisError as e:
        print('ANALYSIS-ERROR %s' % e)
        return 2
    except Exception:
        print('ANALYSIS-ERROR internal error in the checker:')
        traceback.print_exc(file=sys.stdout)
        return 2


if __name__ == '__main__':
    sys.exit(main(sys.argv[1:]))
