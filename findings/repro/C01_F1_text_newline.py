from common import *
with Tmp() as d:
    c = diskcache.Cache(d)
    v = 'a\rb\r\nc' * 10000
    c['t'] = v
    got = c['t']
    c.close()
verdict(got != v, 'big text with CR reads back %s' % ('altered (%r...)' % got[:8] if got != v else 'identical'))
