from common import *
with Tmp() as d:
    c = diskcache.Cache(d)
    c['n'] = float('nan')
    got = c['n']
    c.close()
verdict(not (isinstance(got, float) and got != got), 'float nan reads back as %r' % (got,))
