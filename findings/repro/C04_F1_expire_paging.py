from common import *
import time
with Tmp() as d:
    c = diskcache.Cache(d)
    now = time.time()
    for i in range(250):
        c.set(i, i, expire=1)
    # give every item the same expiry instant
    c._sql('UPDATE Cache SET expire_time = ?', (now - 5,))
    n = c.expire()
    left = len(c)
    c.close()
verdict(left != 0, 'expire() removed %d of 250 items sharing one expiry time, %d left' % (n, left))
