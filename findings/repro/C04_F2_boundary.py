from common import *
import time
from unittest import mock
with Tmp() as d:
    c = diskcache.Cache(d)
    with mock.patch('time.time', return_value=1000.0):
        c.set('k', 5, expire=10)          # expire_time == 1010.0
        c.push('x', expire=10)
    with mock.patch('time.time', return_value=1010.0):   # now == expire_time
        g = c.get('k')
        present = 'k' in c
        inc = None
        try:
            inc = c.incr('k', default=None)
        except KeyError:
            inc = 'KeyError'
        pk = c.peek()
        pi = None
        try:
            pi = c.peekitem()
        except KeyError:
            pi = 'KeyError'
    c.close()
bad = (g is None and not present) and (inc != 'KeyError' or pk != (None, None))
verdict(bad, 'at now == expire_time: get=%r in=%r but incr=%r peek=%r peekitem=%r' % (g, present, inc, pk, pi))
