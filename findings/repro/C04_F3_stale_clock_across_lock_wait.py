from common import *
import threading, time
with Tmp() as d:
    c = diskcache.Cache(d)
    for k in ('t', 'a', 'i'):
        c.set(k, 1, expire=0.3)
    other = diskcache.Cache(d)
    h1, h2, h3 = diskcache.Cache(d), diskcache.Cache(d), diskcache.Cache(d)   # opened before the lock is taken
    def holder():
        with other.transact(retry=True):
            time.sleep(0.8)          # holds the write lock across the expiry instant (t+0.3)
    h = threading.Thread(target=holder); h.start()
    time.sleep(0.1)
    res = {}
    # each call reads the clock now (t+0.1), waits for the lock until t+0.8, then decides with the stale clock
    ths = [threading.Thread(target=lambda: res.__setitem__('touch', h1.touch('t', expire=100, retry=True))),
           threading.Thread(target=lambda: res.__setitem__('add', h2.add('a', 2, retry=True))),
           threading.Thread(target=lambda: res.__setitem__('incr', h3.incr('i', retry=True)))]
    for t in ths: t.start()
    for t in ths: t.join()
    h.join()
    after = c.get('t')
    c.close(); other.close()
bad = res.get('touch') is True and after == 1 and res.get('add') is False and res.get('incr') == 2
verdict(bad, "items expired at t+0.3, lock held until t+0.8, calls issued at t+0.1 with retry=True: touch -> %r (get -> %r: "
        "touched back to life), add -> %r (expired item reported present), incr -> %r (expired item incremented)"
        % (res.get('touch'), after, res.get('add'), res.get('incr')))
