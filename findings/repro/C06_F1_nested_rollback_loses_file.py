from common import *
with Tmp() as d:
    c = diskcache.Cache(d)
    big1, big2 = b'a' * 100000, b'b' * 100000
    c['k'] = big1
    try:
        with c.transact():
            c['k'] = big2          # nested block: old file removed at inner exit
            raise RuntimeError('abort')
    except RuntimeError:
        pass
    present = 'k' in c
    got = c.get('k')
    c.close()
verdict(present and got != big1, "after aborted block: key present=%s, value %s" % (present, 'LOST (get -> %r)' % (got,) if got != big1 else 'intact'))
