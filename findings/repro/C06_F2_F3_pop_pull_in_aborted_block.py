from common import *
with Tmp() as d:
    c = diskcache.Cache(d)
    big = b'a' * 100000
    c['k'] = big
    c.push(big)
    try:
        with c.transact():
            c.pop('k')
            c.pull()
            raise RuntimeError('abort')
    except RuntimeError:
        pass
    n = len(c)
    g = c.get('k')
    rows = c._sql('SELECT key, filename FROM Cache').fetchall()
    missing = [k for k, f in rows if f and not os.path.exists(os.path.join(d, f))]
    c.close()
# (a peek() here would spin forever: the row is back, its file is gone)
verdict(n == 2 and len(missing) == 2, "after the aborted block both rows are back (len=%d) but the value files of %r are gone; get('k') -> %r" % (n, missing, g))
