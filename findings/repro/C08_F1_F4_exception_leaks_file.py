from common import *
import glob
with Tmp() as d:
    c = diskcache.Cache(d)
    big = b'a' * 100000
    leaks = {}
    for name, call in (('set', lambda: c.set('k', big, tag=object())), ('add', lambda: c.add('k2', big, tag=object())),
                       ('push', lambda: c.push(big, tag=object()))):
        try:
            call()
        except Exception as e:
            pass
        leaks[name] = len(glob.glob(os.path.join(d, '*', '*', '*.val')))
    warns = c.check()
    c.close()
verdict(leaks['push'] >= 3 and len(c) == 0 if False else leaks['push'] >= 3, "value files left behind after failed set/add/push: %s; check() -> %d warnings" % (leaks, len(warns)))
