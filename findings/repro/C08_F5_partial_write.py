from common import *
import glob
with Tmp() as d:
    c = diskcache.Cache(d)
    bad = 'x' * 100000 + '\ud800'     # lone surrogate: UTF-8 encoding fails mid-write
    try:
        c['s'] = bad
    except UnicodeEncodeError:
        pass
    files = glob.glob(os.path.join(d, '*', '*', '*.val'))
    c.close()
verdict(len(files) == 1, "unencodable text rejected but %d partial value file(s) left behind" % len(files))
