from common import *
import time
with Tmp() as d:
    c = diskcache.Cache(d, eviction_policy='none')
    for i in range(5):
        c.set(i, i, expire=0.001)
    time.sleep(0.05)
    n = c.cull()
    left = len(c)
    c.close()
verdict(n == 0 and left == 0, "policy none: cull() returned %d after removing 5 expired items (len now %d)" % (n, left))
