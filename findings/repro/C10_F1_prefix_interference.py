from common import *
with Tmp() as d:
    c = diskcache.Cache(d)
    c.push('x', prefix='a-5')
    got = c.pull(prefix='a')
    c.close()
verdict(got != (None, None), "pull(prefix='a') returned %r which belongs to queue 'a-5'" % (got,))
