from common import *
with Tmp() as d:
    idx = diskcache.Index(d)
    big1, big2 = b'a' * 100000, b'b' * 100000
    idx['k'] = big1
    cache = idx.cache
    disk = cache.disk
    orig = disk.fetch
    def racing_fetch(mode, filename, value, read):
        # a concurrent replacement lands between the row read and the file open
        disk.fetch = orig
        diskcache.Cache(d)['k'] = big2
        return orig(mode, filename, value, read)
    disk.fetch = racing_fetch
    try:
        v = idx['k']
        res = 'value'
    except KeyError:
        res = 'KeyError'
verdict(res == 'KeyError', "Index lookup overlapping a replacement of a continuously present key -> %s" % res)
