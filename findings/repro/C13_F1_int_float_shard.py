from common import *
with Tmp() as d:
    f = diskcache.FanoutCache(d, shards=8)
    f[1] = 'v'
    a = f.get(1.0)
    c = diskcache.Cache(os.path.join(d, 'plain'))
    c[1] = 'v'
    b = c.get(1.0)
    f.close(); c.close()
verdict(b == 'v' and a != 'v', "Cache: get(1.0) -> %r; FanoutCache: get(1.0) -> %r" % (b, a))
