from common import *
import sqlite3
with Tmp() as d:
    c = diskcache.Cache(d, timeout=0.05)
    c['a'] = 1
    other = sqlite3.connect(os.path.join(d, 'cache.db'), isolation_level=None, check_same_thread=False)
    other.execute('BEGIN IMMEDIATE')
    import threading
    threading.Timer(0.5, lambda: other.execute('COMMIT')).start()
    try:
        c.cull(retry=True)
        res = 'waited'
    except diskcache.Timeout as e:
        res = 'Timeout%r' % (e.args,)
    import time; time.sleep(0.6)
    other.close(); c.close()
verdict(res != 'waited', "cull(retry=True) with the lock held elsewhere -> %s" % res)
