from common import *
from diskcache.core import args_to_key
a = args_to_key(('f',), (1, None, 'a'), {}, False, ())
b = args_to_key(('f',), (1,), {'a': None}, False, ())
verdict(a == b, "f(1, None, 'a') and f(1, a=None) build keys %r / %r" % (a, b))
