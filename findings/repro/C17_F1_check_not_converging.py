from common import *
import warnings
with Tmp() as d:
    c = diskcache.Cache(d)
    os.makedirs(os.path.join(d, 'ab', 'cd'))
    open(os.path.join(d, 'ab', 'cd', 'stray.val'), 'w').close()
    w1 = c.check(fix=True)
    w2 = c.check(fix=True)
    c.close()
verdict(len(w2) > 0, "second check(fix=True) still reports: %s" % [str(w.message) for w in w2])
