from common import *
with Tmp() as d:
    f = diskcache.FanoutCache(d, shards=2)
    sub = f.cache('x', disk=diskcache.JSONDisk)
    t = type(sub.disk).__name__
    f.close()
verdict(t != 'JSONDisk', "fanout.cache('x', disk=JSONDisk).disk is a %s" % t)
