"""C18-F2: a FanoutCache created with a non-default size_limit loses it on every reopen / unpickle.

FanoutCache.__init__ computes `size_limit = settings.pop('size_limit', DEFAULT_SETTINGS['size_limit']) / shards`
and passes it *explicitly* to every shard, and Cache.__init__ layers explicit arguments over the stored
settings and writes them back (INSERT OR REPLACE).  Reopening the directory - or unpickling the object, whose
state is (directory, shards, timeout, disk) only - therefore overwrites the stored limit of every shard with
default / shards, for this handle and for every other handle on the directory."""
import pickle
from common import Tmp, diskcache, verdict

with Tmp() as d:
    fc = diskcache.FanoutCache(d, shards=2, size_limit=1000000)
    before = [s.size_limit for s in fc._shards]
    copy = pickle.loads(pickle.dumps(fc))                     # "after pickling and unpickling the object"
    after_pickle = [s.size_limit for s in copy._shards]
    stored = [s.reset('size_limit') for s in fc._shards]      # what is on disk now, through the first handle
    copy.close()
    fc.close()
    again = diskcache.FanoutCache(d, shards=2)                # plain reopen
    after_reopen = [s.size_limit for s in again._shards]
    again.close()
    # contrast: a plain Cache keeps its stored setting
    with Tmp() as d2:
        c = diskcache.Cache(d2, size_limit=1000000)
        c.close()
        keeps = diskcache.Cache(d2).size_limit
    bad = before == [500000, 500000] and (after_pickle != before or stored != before or after_reopen != before)
    verdict(bad, 'created %s; after unpickle %s; stored on disk (seen by first handle) %s; after reopen %s; '
                 'plain Cache keeps %s' % (before, after_pickle, stored, after_reopen, keeps))
