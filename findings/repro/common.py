"""Reproductions of the genuine defects found by the static checks.  These
scripts are records, not checks: no registered command runs them.  Each
prints DEFECT-REPRODUCED or NOT-REPRODUCED and exits 0 / 1."""
import os, shutil, sys, tempfile
sys.path.insert(0, os.environ.get('DISKCACHE_SRC', '/repo'))
import diskcache  # noqa


class Tmp:
    def __enter__(self):
        self.d = tempfile.mkdtemp(prefix='dc-repro-')
        return self.d

    def __exit__(self, *a):
        shutil.rmtree(self.d, ignore_errors=True)


def verdict(bad, msg):
    print(('DEFECT-REPRODUCED: ' if bad else 'NOT-REPRODUCED: ') + msg)
    sys.exit(0 if bad else 1)
