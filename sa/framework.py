"""Rule framework: context, obligations, registry, trace helpers."""
import ast

from .model import Program, AnalysisError
from .interp import Interp, Opts
from .values import V, src_of

RULES = {}


def rule(rid, floor=1, title=''):
    """Register a rule.  `floor` = minimum number of obligations the rule must
    produce on a tree where its anchors exist (a rule matching nothing must
    not pass vacuously)."""
    def deco(fn):
        fn.rid = rid
        fn.floor = floor
        fn.title = title or (fn.__doc__ or '').strip().split('\n')[0]
        RULES[rid] = fn
        return fn
    return deco


class Ob:
    """One proof obligation and its verdict."""
    __slots__ = ('rule', 'key', 'ok', 'msg', 'loc', 'witness', 'nontrivial')

    def __init__(self, rule, key, ok, msg, loc='', witness=None, nontrivial=True):
        self.rule = rule
        self.key = key if isinstance(key, str) else '/'.join(str(k) for k in key)
        self.ok = bool(ok)
        self.msg = msg
        self.loc = loc
        self.witness = witness or []
        self.nontrivial = nontrivial

    def as_dict(self):
        return {'rule': self.rule, 'key': self.key, 'ok': self.ok, 'msg': self.msg, 'loc': self.loc,
                'witness': self.witness[:40]}


PROFILES = {
    'default': dict(),
    # the manager analysed against its own protocol: BEGIN may fail, the yield may raise anything
    'manager': dict(yield_raises=True, begin_raises=True, hyp_handlers=False),
    # every call may raise anything (exception exits)
    'raise_any': dict(raise_any=lambda ev, st: True),
    # nothing hypothetical: only explicit raises and the transaction protocol
    'plain': dict(hyp_handlers=False),
    # one more loop unrolling: needed where a rule talks about two completed iterations
    'plain3': dict(hyp_handlers=False, while_max=3),
    # two iterations of abstract for loops: needed where a rule talks about state carried from one element to the next
    'for2': dict(for_two=True),
}


class Ctx:
    def __init__(self, repo=None, tier='quick'):
        self.prog = Program(repo)
        self.tier = tier
        self._paths = {}
        self.interps = []
        self.stats = {'paths': 0, 'events': 0, 'functions': set(), 'calls_resolved': 0}
        self.sql_sites = {}

    def opts(self, profile):
        kw = dict(PROFILES[profile])
        if self.tier == 'thorough':
            kw['while_max'] = kw.get('while_max', 2) + 1
            kw.setdefault('max_depth', 8)
        return Opts(**kw)

    def paths(self, func, profile='default'):
        if isinstance(func, str):
            func = self.prog.func(func)
        k = (func.qual, profile)
        if k not in self._paths:
            it = Interp(self.prog, self.opts(profile))
            ps = it.run(func)
            self._paths[k] = ps
            self.stats['paths'] += len(ps)
            self.stats['events'] += it.nevents
            self.stats['calls_resolved'] += it.ncalls_resolved
            self.stats['functions'].add(func.qual)
            for site, texts in it.sql_sites.items():
                self.sql_sites.setdefault(site, set()).update(texts)
        return self._paths[k]

    def func(self, qual):
        return self.prog.func(qual)

    def fold(self, expr, module):
        """Constant value of an expression (literals, module constants, arithmetic); raises ValueError."""
        return Interp(self.prog, Opts()).fold(expr, module)

    def method(self, cls, name):
        return self.prog.method(cls, name)

    def loc(self, func, node=None):
        return func.loc(node)


# ------------------------------------------------------------------ helpers
def private_callee(ctx, cls, callers, pick=None):
    """The private method of `cls` that the given public methods call (found by use, so that a rename of the
    helper is not an anchor loss).  `pick`: optional predicate on the candidate Func."""
    import ast as _ast
    from .model import dotted as _dotted
    ci = ctx.prog.classes[cls]
    counts = {}
    for name in callers:
        f = ci.methods.get(name)
        if f is None:
            continue
        for n in _ast.walk(f.node):
            if isinstance(n, _ast.Call):
                d = _dotted(n.func) or ''
                if d.startswith('self._') and not d.startswith('self.__'):
                    g = ci.methods.get(d[5:]) or ctx.prog.lookup(cls, d[5:])
                    if g is not None and not g.is_property and (pick is None or pick(g)):
                        counts[g.name] = counts.get(g.name, 0) + 1
    if not counts:
        from .model import AnalysisError
        raise AnalysisError('anchor vanished: no private helper of %s is called by %s' % (cls, '/'.join(callers)))
    best = max(counts, key=counts.get)
    return ci.methods.get(best) or ctx.prog.lookup(cls, best)


KNOWN_DECORATORS = {'property', 'staticmethod', 'classmethod', 'contextmanager', 'cl.contextmanager',
                    'contextlib.contextmanager', 'wraps', 'ft.wraps', 'functools.wraps'}


def unmodelled_constructs(ctx):
    """Constructs of the analysed tree that lie outside the subset the interpreter models.  The released code has
    none of them.  When they are present a failed obligation is not reported as a violation: the run ends as
    ANALYSIS-ERROR (exit 2, "cannot vouch for this tree"), naming the constructs."""
    import ast as _ast
    from .model import dotted as _dotted
    cached = ctx.__dict__.get('_unmodelled')
    if cached is not None:
        return cached
    out = []
    for mname, mi in sorted(ctx.prog.modules.items()):
        for n in _ast.walk(mi.tree):
            if isinstance(n, _ast.Call) and (_dotted(n.func) or '').split('.')[-1] in ('namedtuple', 'make_dataclass'):
                out.append('%s:%d namedtuple type (rows/values carried by field name are not modelled)' % (mname, n.lineno))
            if isinstance(n, _ast.ClassDef):
                if any((_dotted(b) or '').split('.')[-1] == 'NamedTuple' for b in n.bases) or any(
                        (_dotted(d) or (_dotted(d.func) if isinstance(d, _ast.Call) else '') or '').split('.')[-1] == 'dataclass'
                        for d in n.decorator_list):
                    out.append('%s:%d class %s is a NamedTuple/dataclass' % (mname, n.lineno, n.name))
                if mname == 'core' and n.name.startswith('_'):
                    out.append('%s:%d private class %s in core (objects that carry the statement executor or rows '
                               'are not modelled)' % (mname, n.lineno, n.name))
            if isinstance(n, (_ast.FunctionDef, _ast.AsyncFunctionDef)):
                for d in n.decorator_list:
                    name = _dotted(d) or (_dotted(d.func) if isinstance(d, _ast.Call) else '') or ''
                    if name and name not in KNOWN_DECORATORS and not name.endswith('.setter') and not name.endswith('.getter') \
                            and name.split('.')[-1] not in ('wraps', 'contextmanager', 'lru_cache', 'cache', 'cached_property',
                                                            'total_ordering', 'abstractmethod'):
                        out.append('%s:%d decorator @%s on %s (wrapped functions are not modelled)' % (
                            mname, n.lineno, name, n.name))
    # statements whose text the abstract evaluation could not determine
    try:
        from .rules_lock import core_entries, _forwarder
        for f in core_entries(ctx):
            for p in ctx.paths(f, 'default'):
                for ev in p.trace:
                    if ev.kind == 'SQL' and ev.d.get('stmt') is None and not _forwarder(ev, ctx):
                        s = '%s SQL statement of unknown text in %s' % (ev.loc(), ev.fn.qual)
                        if s not in out:
                            out.append(s)
    except Exception as e:       # the scan itself must never hide a verdict
        out.append('resolution scan failed: %s' % e)
    ctx.__dict__['_unmodelled'] = out
    return out


def fmt_trace(trace, limit=40):
    out = []
    for ev in trace:
        if ev.kind in ('FOR', 'FOREND', 'LOOP', 'FINALLY', 'CHOICE'):
            continue
        if ev.kind == 'TEST':
            out.append('%s: assume (%s) is %s' % (ev.loc(), ev.d.get('src'), ev.d.get('truth')))
        elif ev.kind == 'SQL':
            out.append('%s: SQL %s' % (ev.loc(), (ev.d.get('text') or '?')[:90]))
        elif ev.kind == 'CALL':
            out.append('%s: call %s' % (ev.loc(), ','.join(t.qual for t in ev.d['targets'])))
        elif ev.kind in ('EXT', 'NEW'):
            out.append('%s: %s %s' % (ev.loc(), ev.kind.lower(), ev.d.get('name')))
        elif ev.kind == 'RAISE':
            out.append('%s: raise %s (%s)' % (ev.loc(), ev.d.get('typ'), ev.d.get('at')))
        else:
            out.append('%s: %s %s' % (ev.loc(), ev.kind, ' '.join(
                '%s=%r' % (k, v) for k, v in ev.d.items() if k in ('inst', 'val', 'typ', 'how', 'why'))))
    if len(out) > limit:
        out = out[:limit // 2] + ['...'] + out[-limit // 2:]
    return out


def sql_events(trace, kind=None, table=None):
    for ev in trace:
        if ev.kind != 'SQL':
            continue
        st = ev.d.get('stmt')
        if st is None:
            continue
        if kind is not None and st.kind not in (kind if isinstance(kind, (tuple, list, set)) else (kind,)):
            continue
        if table is not None and (st.table or '').lower() != table.lower():
            continue
        yield ev


def call_events(trace, qual_suffix):
    """CALL events one of whose targets' qualified name ends with suffix."""
    for ev in trace:
        if ev.kind == 'CALL' and any(t.qual.endswith(qual_suffix) for t in ev.d['targets']):
            yield ev


def values_in(v):
    """All sub-values of an abstract value (including itself)."""
    seen = []
    stack = [v]
    while stack:
        x = stack.pop()
        if isinstance(x, V):
            seen.append(x)
            for a in x.a:
                stack.append(a)
        elif isinstance(x, (tuple, list)):
            stack.extend(x)
        elif isinstance(x, dict):
            stack.extend(x.values())
    return seen


def mentions(v, pred):
    return any(pred(x) for x in values_in(v))


def norm_stmt_text(node):
    """Normalised statement text: a stable construct key that survives
    re-formatting (never a line number)."""
    return ' '.join(src_of(node).split())


def deep_values(v, trace, _seen=None):
    """values_in, additionally expanded through the arguments of the calls
    that produced ext/mcall/ucall/ret values (their events are in `trace`)."""
    _seen = _seen if _seen is not None else set()
    out = []
    for x in values_in(v):
        out.append(x)
        seq = None
        if x.k in ('ext', 'mcall') and len(x.a) > 1 and isinstance(x.a[1], int):
            seq = x.a[1]
        elif x.k in ('ucall',) and isinstance(x.a[0], int):
            seq = x.a[0]
        if seq is not None and seq not in _seen and 0 <= seq < len(trace):
            _seen.add(seq)
            ev = trace[seq]
            for a in list(ev.d.get('args') or []) + list((ev.d.get('kwargs') or {}).values()):
                out.extend(deep_values(a, trace, _seen))
            r = ev.d.get('recv')
            if isinstance(r, V):
                out.extend(deep_values(r, trace, _seen))
    return out


def role_of(ev, table):
    """Role of the function an event belongs to: the function containing the construct, or - when the construct
    sits in a helper that was inlined - the nearest enclosing function of the activation that has a role."""
    q = ev.fn.qual if ev.fn is not None else None
    if q in table:
        return table[q]
    for q in reversed(ev.stack):
        if q in table:
            return table[q]
    return None


def within(ev, qual):
    """Did the event occur during an activation of function `qual` (directly or in an inlined helper)?"""
    return (ev.fn is not None and ev.fn.qual == qual) or qual in ev.stack


def real_call(ev):
    """A CALL event that is not merely the entry into an inlined helper."""
    return ev.kind == 'CALL' and not ev.d.get('inlined')


ONE_SHOT_CALLS = ('map', 'filter', 'zip', 'iter', 'reversed', 'enumerate')


def one_shot_reuse(fnode):
    """Locals bound (once) to a one-shot iterator - a generator expression or map/filter/zip/iter/... - that are
    consumed more than once on one path: two uses that are not in different arms of one `if`, or one use inside a loop
    that the binding is outside of.  Returns [(name, lineno of the second use)]."""
    binds = {}
    for n in ast.walk(fnode):
        if isinstance(n, ast.Assign) and len(n.targets) == 1 and isinstance(n.targets[0], ast.Name):
            v = n.value
            shot = isinstance(v, ast.GeneratorExp) or (isinstance(v, ast.Call) and isinstance(v.func, ast.Name)
                                                       and v.func.id in ONE_SHOT_CALLS)
            binds.setdefault(n.targets[0].id, []).append((n, shot))
    names = {k for k, v in binds.items() if len(v) == 1 and v[0][1]}
    if not names:
        return []
    uses = {k: [] for k in names}

    def walk(node, arms, loops):
        for field, val in ast.iter_fields(node):
            kids = val if isinstance(val, list) else [val]
            for kid in kids:
                if not isinstance(kid, ast.AST):
                    continue
                a2, l2 = arms, loops
                if isinstance(node, ast.If) and field in ('body', 'orelse'):
                    a2 = arms + ((id(node), field),)
                if isinstance(node, (ast.For, ast.While)) and field == 'body':
                    l2 = loops + (node,)
                if isinstance(node, (ast.GeneratorExp, ast.ListComp, ast.SetComp, ast.DictComp)) and field != 'generators':
                    l2 = loops + (node,)
                if isinstance(kid, ast.Name) and isinstance(kid.ctx, ast.Load) and kid.id in names:
                    uses[kid.id].append((kid, a2, l2))
                if isinstance(kid, (ast.FunctionDef, ast.AsyncFunctionDef, ast.Lambda)):
                    continue
                walk(kid, a2, l2)
    walk(fnode, (), ())
    out = []
    for name, us in uses.items():
        bind = binds[name][0][0]
        for kid, arms, loops in us:
            if any(not any(x is bind for x in ast.walk(lp)) for lp in loops):
                out.append((name, kid.lineno))
        for i, (k1, a1, _) in enumerate(us):
            for k2, a2, _ in us[i + 1:]:
                d1, d2 = dict(a1), dict(a2)
                if not any(d1[c] != d2[c] for c in d1 if c in d2):
                    out.append((name, k2.lineno))
    return sorted(set(out))

