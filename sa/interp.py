"""Structural path interpreter with exceptional edges (DESIGN §3.5).

`Interp(prog, opts).run(func)` enumerates every path through `func` as
(trace of events, outcome, final state).  No explicit graph is built.
"""
import ast

from .model import dotted, AnalysisError
from .values import V, C, NONE, TRUE, FALSE, unk, tup, Raise, Ev, canon_exc, catches, src_of
from .interp_expr import ExprMixin
from .interp_call import CallMixin


class Opts:
    def __init__(self, **kw):
        self.inline = default_inline
        self.max_depth = 5
        self.while_max = 2
        self.for_zero = True
        self.yield_raises = False
        self.begin_raises = False
        self.hyp_handlers = True
        self.raise_any = None
        self.raise_inlined = False
        self.assert_raises = False
        self.max_paths = 200000
        self.txn_timeout_paths = True
        self.txn_body_raise = False   # fork one 'ANY' raise at the end of each txn body
        self.for_unroll_max = 16      # loops over constant sequences up to this length are unrolled exactly
        self.for_two = False          # also follow a second iteration of abstract for loops (state carried over)
        for k, v in kw.items():
            if not hasattr(self, k):
                raise TypeError(k)
            setattr(self, k, v)


def default_inline(f, caller, nargs=0, kwnames=()):
    """Inline private (single underscore) helpers of the same class plus the
    two public helpers that core uses internally: volume, and the *read* form
    of reset (one argument; the write form has its PRAGMA retry loop and is
    analysed as an entry point of its own)."""
    if f.cls is None and f.parent is None and f.module == caller.module and f.name.startswith('_') \
            and not f.name.startswith('__'):
        return True     # private module-level helper of the same module
    if f.parent is not None and not f.is_generator and f is not caller:
        anc = caller
        depth = 0
        while anc is not None and depth < 4:
            if f.parent is anc:
                return True     # local closure called from the function that defines it or from a closure nested in it
            anc = anc.parent
            depth += 1
    if f.cls is None and f.parent is None and f.module == caller.module and not f.is_generator \
            and f.name not in ('args_to_key', 'full_name') and len(f.node.body) <= 12:
        return True     # small module-level helper of the same module
    if f.cls is not None and caller.cls is None and caller.parent is None and caller.module == f.module \
            and caller.name.startswith('_') and f.name.startswith('_') and not f.name.startswith('__') \
            and not f.is_property and not f.is_generator and not f.is_contextmanager:
        return True     # private method called by a private module-level helper that was handed the object
    if f.cls != caller.cls or f.cls is None:
        return False
    if f.is_property:
        return False
    if f.name.startswith('_') and not f.name.startswith('__'):
        return True
    if f.cls == 'Cache' and f.name == 'reset':
        return nargs <= 1 and 'value' not in kwnames
    return f.cls == 'Cache' and f.name == 'volume'


class St:
    __slots__ = ('env', 'facts', 'trace', 'txn', 'handlers', 'ntxn', 'nlist', 'fn', 'stack', 'frames', 'selfenv',
                 'excs', 'sites')

    def __init__(self, fn):
        self.env = {}
        self.facts = {}
        self.trace = []
        self.txn = ()
        self.handlers = ()
        self.ntxn = 0
        self.nlist = 0
        self.fn = fn
        self.stack = (fn,)
        self.frames = []
        self.selfenv = {}
        self.excs = ()
        self.sites = ()

    def fork(self):
        s = St.__new__(St)
        s.env = dict(self.env)
        s.facts = dict(self.facts)
        s.trace = list(self.trace)
        s.txn = self.txn
        s.handlers = self.handlers
        s.ntxn = self.ntxn
        s.nlist = self.nlist
        s.fn = self.fn
        s.stack = self.stack
        s.frames = [(f, dict(e), h) for f, e, h in self.frames]
        s.selfenv = dict(self.selfenv)
        s.excs = self.excs
        s.sites = self.sites
        return s

    def rebind(self, old, new):
        """A mutable container was updated in place: every name (and self attribute) holding it sees the new contents."""
        for name, v in list(self.env.items()):
            if v == old:
                self.env[name] = new
        for k, v in list(self.selfenv.items()):
            if v == old:
                self.selfenv[k] = new
        for fr in self.frames:
            for name, v in list(fr[1].items()):
                if v == old:
                    fr[1][name] = new

    def push_frame(self, f, env, site=None):
        self.frames.append((self.fn, self.env, self.handlers))
        self.sites = self.sites + (site,)
        self.fn = f
        self.env = env
        self.stack = self.stack + (f,)

    def pop_frame(self):
        self.fn, self.env, self.handlers = self.frames.pop()
        self.stack = self.stack[:-1]
        self.sites = self.sites[:-1]


class Path:
    __slots__ = ('trace', 'outcome', 'st')

    def __init__(self, trace, outcome, st):
        self.trace = trace
        self.outcome = outcome
        self.st = st

    @property
    def kind(self):
        return self.outcome[0]

    def raised(self):
        return self.outcome[1].typ if self.outcome[0] == 'raise' else None


class Interp(ExprMixin, CallMixin):
    def __init__(self, prog, opts=None):
        self.prog = prog
        self.opts = opts or Opts()
        self.nevents = 0
        self.ncalls_resolved = 0
        self.npaths = 0
        self.sql_sites = {}

    # ------------------------------------------------------------------ entry
    def run(self, func, env=None):
        st = St(func)
        e = {}
        params = list(func.posparams)
        if func.cls and func.parent is None and not func.is_static and params:
            e[params[0]] = V('self', func.cls)
            params = params[1:]
        for p in params + func.kwonly:
            e[p] = V('param', p, func.module)
        if func.vararg:
            e[func.vararg] = V('param', '*' + func.vararg, func.module)
        if func.kwarg:
            e[func.kwarg] = V('param', '**' + func.kwarg, func.module)
        if env:
            e.update(env)
        st.env = e
        paths = []
        for outcome, s in self.exec_block(func.node.body, st):
            paths.append(Path(s.trace, outcome, s))
        self.npaths += len(paths)
        if len(paths) > self.opts.max_paths:
            raise AnalysisError('path cap exceeded in %s: %d' % (func.qual, len(paths)))
        return paths

    # --------------------------------------------------------------- blocks
    def exec_block(self, stmts, st):
        """Returns list of (outcome, St); outcome[0] in next/return/raise/break/continue/cut."""
        states = [st]
        done = []
        for stmt in stmts:
            nxt = []
            for s in states:
                for outcome, s2 in self.exec_stmt(stmt, s):
                    if outcome[0] == 'next':
                        nxt.append(s2)
                    else:
                        done.append((outcome, s2))
            states = nxt
            if len(states) + len(done) > self.opts.max_paths:
                raise AnalysisError('path cap exceeded in %s' % st.fn.qual)
            if not states:
                break
        return done + [(('next',), s) for s in states]

    def exec_stmt(self, stmt, st):
        m = getattr(self, 's_' + type(stmt).__name__, None)
        if m is None:
            raise AnalysisError('statement kind %s not supported (%s)' % (type(stmt).__name__, st.fn.loc(stmt)))
        return m(stmt, st)

    def _raise_out(self, r, s):
        if r.typ == 'CUT':
            return (('cut',), s)
        return (('raise', r), s)

    # ----------------------------------------------------------- statements
    def s_Expr(self, n, st):
        if isinstance(n.value, ast.Constant):
            return [(('next',), st)]
        out = []
        for v, s in self.eval(n.value, st):
            out.append(self._raise_out(v, s) if isinstance(v, Raise) else (('next',), s))
        return out

    def s_Pass(self, n, st):
        return [(('next',), st)]

    def s_Global(self, n, st):
        return [(('next',), st)]

    s_Nonlocal = s_Global
    s_Import = s_Global
    s_ImportFrom = s_Global

    def s_FunctionDef(self, n, st):
        # decorators may have effects (functools.wraps): ignore
        return [(('next',), st)]

    s_ClassDef = s_FunctionDef

    def s_Assign(self, n, st):
        out = []
        for v, s in self.eval(n.value, st):
            if isinstance(v, Raise):
                out.append(self._raise_out(v, s))
                continue
            res = [s]
            for t in n.targets:
                nxt = []
                for s1 in res:
                    nxt.extend(self.assign(t, v, s1, n))
                res = nxt
            for r in res:
                if isinstance(r, tuple):
                    out.append(r)
                else:
                    out.append((('next',), r))
        return out

    def s_AnnAssign(self, n, st):
        if n.value is None:
            return [(('next',), st)]
        fake = ast.Assign(targets=[n.target], value=n.value)
        ast.copy_location(fake, n)
        return self.s_Assign(fake, st)

    def s_AugAssign(self, n, st):
        out = []
        load = _as_load(n.target)
        for vals, s in self.eval_seq([load, n.value], st):
            if isinstance(vals, Raise):
                out.append(self._raise_out(vals, s))
                continue
            v = self.binop(n.op, vals[0], vals[1])
            for r in self.assign(n.target, v, s, n):
                out.append(r if isinstance(r, tuple) else (('next',), r))
        return out

    def assign(self, target, v, st, node):
        """Bind; returns list of St (or (outcome, St) for raising stores)."""
        if isinstance(target, ast.Name):
            st.env[target.id] = v
            return [st]
        if isinstance(target, (ast.Tuple, ast.List)):
            elts = target.elts
            stars = [i for i, t in enumerate(elts) if isinstance(t, ast.Starred)]
            if len(stars) == 1 and v.k == 'row':
                # (a, b, *rest) = row : the starred name takes the remaining columns of the SELECT, in order
                stmt = st.trace[v.a[0]].d.get('stmt')
                if stmt is not None and stmt.kind == 'select' and stmt.colnames and '*' not in stmt.colnames \
                        and not any('⟦' in c for c in stmt.colnames) and len(stmt.colnames) >= len(elts) - 1:
                    ncol, i0 = len(stmt.colnames), stars[0]
                    nrest = ncol - (len(elts) - 1)
                    cols = [self.col_of(v.a[0], i, st, node) for i in range(ncol)]
                    pieces = cols[:i0] + [V('tuple', tuple(cols[i0:i0 + nrest]))] + cols[i0 + nrest:]
                    res = [st]
                    for t, item in zip(elts, pieces):
                        tt = t.value if isinstance(t, ast.Starred) else t
                        nxt = []
                        for s in res:
                            if isinstance(s, tuple):
                                nxt.append(s)
                            else:
                                nxt.extend(self.assign(tt, item, s, node))
                        res = nxt
                    return res
            items = self.unpack(v, len(elts), st, node)
            res = [st]
            for t, item in zip(elts, items):
                nxt = []
                for s in res:
                    if isinstance(s, tuple):
                        nxt.append(s)
                    else:
                        nxt.extend(self.assign(t, item, s, node))
                res = nxt
            return res
        if isinstance(target, ast.Attribute):
            res = []
            for base, s in self.eval(target.value, st):
                if isinstance(base, Raise):
                    res.append(self._raise_out(base, s))
                    continue
                if base.k == 'self':
                    s.selfenv[(base.a[0], target.attr)] = v
                self.emit(s, 'SETATTR', node, base=base, attr=target.attr, val=v)
                res.append(s)
            return res
        if isinstance(target, ast.Subscript):
            res = []
            for vals, s in self.eval_seq([target.value, target.slice], st):
                if isinstance(vals, Raise):
                    res.append(self._raise_out(vals, s))
                    continue
                base, idx = vals
                r = self.dunder_call(node, '__setitem__', base, [idx, v], s)
                if r is not None:
                    for rv, s2 in r:
                        res.append(self._raise_out(rv, s2) if isinstance(rv, Raise) else s2)
                    continue
                if base.k == 'list' and idx.is_const and isinstance(idx.val, int):
                    items = list(base.a[0])
                    try:
                        items[idx.val] = v
                        s.rebind(base, V('list', tuple(items), base.a[1]))
                    except IndexError:
                        pass
                if base.k == 'mdict':
                    s.rebind(base, V('mdict', base.a[0] + ((idx, v),), base.a[1]))
                self.emit(s, 'SETITEM', node, base=base, idx=idx, val=v)
                res.append(s)
            return res
        if isinstance(target, ast.Starred):
            return self.assign(target.value, unk('starred'), st, node)
        raise AnalysisError('assignment target %s not supported' % type(target).__name__)

    def unpack(self, v, n, st, node):
        if v.k in ('tuple', 'list'):
            items = v.a[0]
            if len(items) == n:
                return list(items)
            self.emit(st, 'UNPACK_MISMATCH', node, want=n, have=len(items))
            return [unk('unpack') for _ in range(n)]
        if v.is_const and isinstance(v.val, (tuple, list)) and len(v.val) == n:
            return [C(x) for x in v.val]
        if v.k == 'rows':
            # ((a, b),) = rows : exactly n rows, each a `row`
            st.facts[('truthy', v)] = True
            return [V('row', v.a[0]) for _ in range(n)]
        if v.k == 'row':
            sel = v.a[0]
            ev = st.trace[sel]
            stmt = ev.d.get('stmt')
            if stmt is not None and stmt.kind == 'select' and stmt.colnames and '*' not in stmt.colnames:
                if len(stmt.colnames) != n and not any('⟦' in c for c in stmt.colnames):
                    self.emit(st, 'UNPACK_MISMATCH', node, sel=sel, want=n, have=len(stmt.colnames))
            return [self.col_of(sel, i, st, node) for i in range(n)]
        return [V('field', v, i) for i in range(n)]

    def s_Delete(self, n, st):
        res = [st]
        for t in n.targets:
            nxt = []
            for s in res:
                if isinstance(t, ast.Subscript):
                    for vals, s1 in self.eval_seq([t.value, t.slice], s):
                        if isinstance(vals, Raise):
                            nxt.append(self._raise_out(vals, s1))
                            continue
                        r = self.dunder_call(n, '__delitem__', vals[0], [vals[1]], s1)
                        if r is None:
                            self.emit(s1, 'DELITEM', n, base=vals[0], idx=vals[1])
                            nxt.append(s1)
                        else:
                            for rv, s2 in r:
                                nxt.append(self._raise_out(rv, s2) if isinstance(rv, Raise) else s2)
                elif isinstance(t, ast.Name):
                    s.env.pop(t.id, None)
                    nxt.append(s)
                elif isinstance(t, ast.Attribute):
                    for base, s1 in self.eval(t.value, s):
                        if isinstance(base, Raise):
                            nxt.append(self._raise_out(base, s1))
                            continue
                        self.emit(s1, 'DELATTR', n, base=base, attr=t.attr)
                        nxt.append(s1)
                else:
                    nxt.append(s)
            res = nxt
        return [r if isinstance(r, tuple) else (('next',), r) for r in res]

    def s_Return(self, n, st):
        if n.value is None:
            self.emit(st, 'RETURN', n, val=NONE)
            return [(('return', NONE), st)]
        out = []
        for v, s in self.eval(n.value, st):
            if isinstance(v, Raise):
                out.append(self._raise_out(v, s))
            else:
                self.emit(s, 'RETURN', n, val=v)
                out.append((('return', v), s))
        return out

    def s_Raise(self, n, st):
        if n.exc is None:
            cur = st.excs[-1] if st.excs else Raise('ANY')
            r = Raise(cur.typ, cur.data, cur.hyp, n)
            self.emit(st, 'RAISE', n, typ=r.typ, at='reraise', reraise=True)
            return [(('raise', r), st)]
        out = []
        exc = n.exc
        if isinstance(exc, ast.Call):
            tname = dotted(exc.func)
            for vals, s in self.eval_seq(list(exc.args), st):
                if isinstance(vals, Raise):
                    out.append(self._raise_out(vals, s))
                    continue
                typ = canon_exc(self.prog.resolve_name(s.fn.module, tname)) if tname else 'ANYEXC'
                self.emit(s, 'RAISE', n, typ=typ, at='raise', args=vals, from_none=_from_none(n))
                out.append((('raise', Raise(typ, data=vals, node=n)), s))
            return out
        tname = dotted(exc)
        typ = 'ANYEXC'
        if tname:
            v = st.env.get(tname)
            if v is not None and v.k == 'exc':
                typ = v.a[0]
            elif tname not in st.env:
                typ = canon_exc(self.prog.resolve_name(st.fn.module, tname))
        self.emit(st, 'RAISE', n, typ=typ, at='raise', args=[], from_none=_from_none(n))
        return [(('raise', Raise(typ, node=n)), st)]

    def s_Assert(self, n, st):
        out = []
        for t, s in self.eval_test(n.test, st):
            if isinstance(t, Raise):
                out.append(self._raise_out(t, s))
            elif t:
                out.append((('next',), s))
            else:
                self.emit(s, 'RAISE', n, typ='AssertionError', at='assert')
                out.append((('raise', Raise('AssertionError', node=n)), s))
        return out

    def s_If(self, n, st):
        out = []
        for t, s in self.eval_test(n.test, st):
            if isinstance(t, Raise):
                out.append(self._raise_out(t, s))
                continue
            out.extend(self.exec_block(n.body if t else n.orelse, s))
        return out

    def s_Break(self, n, st):
        return [(('break',), st)]

    def s_Continue(self, n, st):
        return [(('continue',), st)]

    def s_While(self, n, st):
        out = []
        states = [st]
        for it in range(self.opts.while_max + 1):
            nxt = []
            for s in states:
                for t, s1 in self.eval_test(n.test, s):
                    if isinstance(t, Raise):
                        out.append(self._raise_out(t, s1))
                        continue
                    if not t:
                        out.extend(self.exec_block(n.orelse, s1) if n.orelse else [(('next',), s1)])
                        continue
                    if it == self.opts.while_max:
                        self.emit(s1, 'CUT', n)
                        out.append((('cut',), s1))
                        continue
                    self.emit(s1, 'LOOP', n, it=it)
                    for outcome, s2 in self.exec_block(n.body, s1):
                        k = outcome[0]
                        if k in ('next', 'continue'):
                            nxt.append(s2)
                        elif k == 'break':
                            out.append((('next',), s2))
                        else:
                            out.append((outcome, s2))
            states = nxt
            if not states:
                break
        return out

    def bind_loop_target(self, target, itv, st, iternode):
        if itv.k in ('rows', 'cursor'):
            elem = V('row', itv.a[0])       # iterating the cursor itself yields the same rows as fetchall()
        elif itv.k in ('tuple', 'list') and len(itv.a[0]) == 1:
            elem = itv.a[0][0]
        elif itv.k == 'star':
            elem = V('elem', itv.a[0])
        else:
            elem = V('elem', itv)
        r = self.assign(target, elem, st, iternode)
        return r

    def s_For(self, n, st):
        out = []
        if isinstance(n.iter, ast.GeneratorExp) and len(n.iter.generators) == 1 and not n.iter.generators[0].ifs \
                and not n.iter.generators[0].is_async:
            # `for x in (f(y) for y in ys): body` runs `x = f(y); body` for every y of ys, lazily, in order
            g = n.iter.generators[0]
            bind = ast.copy_location(ast.Assign(targets=[n.target], value=n.iter.elt), n.iter)
            plain = ast.For(target=g.target, iter=g.iter, body=[bind] + list(n.body), orelse=n.orelse)
            ast.copy_location(plain, n)
            ast.fix_missing_locations(plain)
            return self.s_For(plain, st)
        for itv, s in self.eval(n.iter, st):
            if isinstance(itv, Raise):
                out.append(self._raise_out(itv, s))
                continue
            # operator form: iteration over a repo-typed receiver
            if self.type_of(itv, s):
                r = self.dunder_call(n.iter, '__iter__', itv, [], s)
                if r:
                    itv2, s = r[0]
                    if not isinstance(itv2, Raise):
                        itv = V('iterof', itv, itv2)
            seq = self.const_sequence(itv)
            if seq is not None and 0 < len(seq) <= self.opts.for_unroll_max:
                un = self.unroll_for(n, seq, s.fork())
                if un is not None:
                    out.extend(un)
                    continue
            nonempty = self.known_truth(itv, s)
            if nonempty is None and itv.k == 'mcall' and itv.a[0] in ('items', 'keys', 'values') \
                    and isinstance(itv.a[1], int) and itv.a[1] < len(s.trace):
                recv = s.trace[itv.a[1]].d.get('recv')
                if recv is not None:
                    nonempty = self.known_truth(recv, s)     # a non-empty mapping has items
            if itv.k in ('tuple', 'list'):
                nonempty = len(itv.a[0]) > 0 if (itv.k == 'tuple' or itv.a[0]) else nonempty
                if itv.k == 'list' and not itv.a[0] and self._list_final(itv, s) and not s.fn.is_generator \
                        and not any(fr.is_generator for fr in s.stack):
                    # (not in generators / context managers: they hand `lst.append` to their caller)
                    nonempty = False        # a tracked list to which nothing was appended on this path
            # zero iterations
            stable = itv.k in ('param', 'rows', 'term', 'mcall', 'comp', 'ret', 'ucall', 'field', 'elem') and \
                nonempty is None
            if nonempty is not True and self.opts.for_zero:
                s0 = s.fork()
                if stable:
                    self.assume(itv, False, s0)     # a later loop over the same value is empty too
                self.emit(s0, 'FOR', n, it=0, iter=itv)
                out.extend(self.exec_block(n.orelse, s0) if n.orelse else [(('next',), s0)])
            if nonempty is False:
                continue
            # one iteration
            if stable:
                self.assume(itv, True, s)
            self.emit(s, 'FOR', n, it=1, iter=itv)
            for s1 in self.bind_loop_target(n.target, itv, s, n.iter):
                if isinstance(s1, tuple):
                    out.append(s1)
                    continue
                for outcome, s2 in self.exec_block(n.body, s1):
                    k = outcome[0]
                    if k in ('next', 'continue'):
                        if self.opts.for_two:
                            # a second iteration with whatever the first one left behind
                            s3 = s2.fork()
                            self.emit(s3, 'FOR', n, it=2, iter=itv)
                            for s4 in self.bind_loop_target(n.target, itv, s3, n.iter):
                                if isinstance(s4, tuple):
                                    out.append(s4)
                                    continue
                                for outcome2, s5 in self.exec_block(n.body, s4):
                                    k2 = outcome2[0]
                                    if k2 in ('next', 'continue'):
                                        self.emit(s5, 'FOREND', n)
                                        out.extend(self.exec_block(n.orelse, s5) if n.orelse else [(('next',), s5)])
                                    elif k2 == 'break':
                                        out.append((('next',), s5))
                                    else:
                                        out.append((outcome2, s5))
                        self.emit(s2, 'FOREND', n)
                        out.extend(self.exec_block(n.orelse, s2) if n.orelse else [(('next',), s2)])
                    elif k == 'break':
                        out.append((('next',), s2))
                    else:
                        out.append((outcome, s2))
        return out

    def const_sequence(self, itv):
        """Elements of an iterable whose contents are fully known (constant tuple/list/dict, range of constants)."""
        if itv.is_const and isinstance(itv.val, (tuple, list)):
            return [C(x) for x in itv.val]
        if itv.is_const and isinstance(itv.val, dict):
            return [C(x) for x in itv.val]
        if itv.k == 'tuple' and all(x.is_const or x.k in ('tuple', 'str') for x in itv.a[0]):
            return list(itv.a[0])
        if itv.k == 'term' and itv.a[0] == 'range' and all(x.is_const and isinstance(x.val, int) for x in itv.a[1]):
            try:
                r = range(*[x.val for x in itv.a[1]])
            except Exception:
                return None
            if len(r) <= 256:
                return [C(i) for i in r]
        return None

    def unroll_for(self, n, seq, st):
        self.emit(st, 'FOR', n, it=1, iter=tup(seq), unrolled=len(seq))
        states = [st]
        out = []
        for elem in seq:
            nxt = []
            for s in states:
                for s1 in self.assign(n.target, elem, s, n.iter):
                    if isinstance(s1, tuple):
                        out.append(s1)
                        continue
                    for outcome, s2 in self.exec_block(n.body, s1):
                        k = outcome[0]
                        if k in ('next', 'continue'):
                            nxt.append(s2)
                        elif k == 'break':
                            out.append((('next',), s2))
                        else:
                            out.append((outcome, s2))
            states = nxt
            if len(states) > 8 or len(out) > 64:
                return None     # the body branches: fall back to the abstract 0/1-iteration treatment
        for s in states:
            self.emit(s, 'FOREND', n)
            out.extend(self.exec_block(n.orelse, s) if n.orelse else [(('next',), s)])
        return out

    # ------------------------------------------------------------------- try
    def handler_types(self, h, st):
        if h.type is None:
            return []
        elts = h.type.elts if isinstance(h.type, ast.Tuple) else [h.type]
        out = []
        for e in elts:
            d = dotted(e)
            if d and d in st.env:
                out.extend(self.exc_names_of(st.env[d], st.fn.module))
                continue
            out.append(canon_exc(self.prog.resolve_name(st.fn.module, d)) if d else 'ANYEXC')
        return out

    def exc_names_of(self, v, module=None):
        """Exception classes denoted by a value (a class, an imported name or a tuple of them)."""
        if v.k == 'tuple':
            return [x for y in v.a[0] for x in self.exc_names_of(y, module)]
        if v.k == 'global' and module is not None:
            return [canon_exc(self.prog.resolve_name(module, v.a[0]))]
        if v.k == 'cls':
            return [canon_exc(v.a[0])]
        if v.k == 'extfn':
            return [canon_exc(v.a[0])]
        if v.k == 'builtin':
            return [canon_exc(v.a[0])]
        return ['ANYEXC']

    def s_Try(self, n, st):
        htypes = [self.handler_types(h, st) for h in n.handlers]
        flat = tuple(t for hs in htypes for t in (hs or ['BaseException']))
        saved_handlers = st.handlers
        if n.handlers:
            st.handlers = st.handlers + (flat,)
        results = []
        for outcome, s in self.exec_block(n.body, st):
            s.handlers = saved_handlers
            if outcome[0] == 'raise':
                results.extend(self.dispatch_handlers(n, htypes, outcome[1], s))
            elif outcome[0] == 'next' and n.orelse:
                results.extend(self.exec_block(n.orelse, s))
            else:
                results.append((outcome, s))
        if not n.finalbody:
            return results
        out = []
        for outcome, s in results:
            if outcome[0] == 'cut':
                out.append((outcome, s))
                continue
            self.emit(s, 'FINALLY', n, pending=outcome[0])
            for fo, s2 in self.exec_block(n.finalbody, s):
                if fo[0] == 'next':
                    out.append((outcome, s2))
                else:
                    out.append((fo, s2))
        return out

    def dispatch_handlers(self, n, htypes, r, st):
        """Match raise `r` against handlers in order."""
        if r.typ == 'CUT':
            return [(('cut',), st)]
        out = []
        cur = st
        for h, types in zip(n.handlers, htypes):
            c = catches(types, r.typ)
            if c == 'no':
                continue
            s = cur if c == 'yes' else cur.fork()
            self.emit(s, 'CATCH', h, typ=r.typ, handler=tuple(types), hyp=r.hyp)
            if h.name:
                s.env[h.name] = V('exc', r.typ if r.typ not in ('ANY', 'ANYEXC') else (types[0] if types else 'ANY'),
                                  tuple(r.data) if r.data else ())
            s.excs = s.excs + (r,)
            for outcome, s2 in self.exec_block(h.body, s):
                s2.excs = s2.excs[:-1]
                out.append((outcome, s2))
            if c == 'yes':
                return out
        out.append((('raise', r), cur))
        return out

    # ------------------------------------------------------------------ with
    def s_With(self, n, st):
        return self.with_items(n, list(n.items), st)

    def with_items(self, n, items, st):
        if not items:
            return self.exec_block(n.body, st)
        item, rest = items[0], items[1:]
        ce = item.context_expr
        # transaction managers are expanded with the protocol summary
        txn = self.classify_txn(ce, st)
        if txn is not None:
            return self.with_txn(n, item, rest, txn, st)
        out = []
        for cv, s in self.eval(ce, st):
            if isinstance(cv, Raise):
                out.append(self._raise_out(cv, s))
                continue
            ev = self.emit(s, 'WITH_ENTER', ce, ctx=cv)
            if item.optional_vars is not None:
                bound = V('ctxval', cv, ev.seq)
                res = self.assign(item.optional_vars, bound, s, n)
            else:
                res = [s]
            for s1 in res:
                if isinstance(s1, tuple):
                    out.append(s1)
                    continue
                suppress = None
                if cv.k == 'suppress':
                    suppress = []
                    for a in cv.a[0]:
                        suppress.append(canon_exc(a.a[0]) if a.k in ('extfn',) else
                                        (a.a[0] if a.k == 'builtin' else 'ANYEXC'))
                    suppress = [canon_exc(x) for x in suppress]
                    saved = s1.handlers
                    s1.handlers = s1.handlers + (tuple(suppress),)
                for outcome, s2 in self.with_items(n, rest, s1):
                    if suppress is not None:
                        s2.handlers = saved
                    if outcome[0] == 'raise' and suppress is not None:
                        c = catches(suppress, outcome[1].typ)
                        if c == 'yes':
                            self.emit(s2, 'SUPPRESSED', ce, typ=outcome[1].typ)
                            out.append((('next',), s2))
                            continue
                        if c == 'maybe':
                            s3 = s2.fork()
                            self.emit(s3, 'SUPPRESSED', ce, typ=outcome[1].typ)
                            out.append((('next',), s3))
                    if outcome[0] != 'cut':
                        self.emit(s2, 'WITH_EXIT', ce, ctx=cv, how=outcome[0], enter=ev.seq)
                    out.append((outcome, s2))
        return out

    def classify_txn(self, ce, st):
        """Is the context expression a call of a transaction manager?  Returns
        dict(kind, func) or None.  Decided by resolving the callee."""
        if not isinstance(ce, ast.Call) or not isinstance(ce.func, ast.Attribute):
            return None
        name = ce.func.attr
        base = ce.func.value
        # evaluate receiver without events: receivers are names / self attrs
        try:
            vals = self.eval(base, st.fork())
        except AnalysisError:
            return None
        if not vals or isinstance(vals[0][0], Raise):
            return None
        recv = vals[0][0]
        types = (recv.a[0],) if recv.k == 'self' else self.type_of(recv, st)
        for t in types:
            if t not in self.prog.classes:
                continue
            f = self.prog.lookup(t, name)
            if f is None or not f.is_contextmanager:
                continue
            roles = self.prog.roles
            if f is roles['txn_manager']:
                return {'kind': 'manager', 'func': f, 'recv': recv, 'types': types}
            if f is roles['public_transact']:
                return {'kind': 'public', 'func': f, 'recv': recv, 'types': types}
            if f.name == 'transact':
                return {'kind': 'delegate', 'func': f, 'recv': recv, 'types': types}
        return None

    def with_txn(self, n, item, rest, txn, st):
        ce = item.context_expr
        f = txn['func']
        out = []
        kwexprs = [k.value for k in ce.keywords]
        for vals, s in self.eval_seq(list(ce.args) + kwexprs, st):
            if isinstance(vals, Raise):
                out.append(self._raise_out(vals, s))
                continue
            args = vals[:len(ce.args)]
            kwargs = {k.arg: v for k, v in zip(ce.keywords, vals[len(ce.args):]) if k.arg}
            benv = self.bind_args(f, txn['recv'], args, kwargs, s)
            retry = benv.get('retry', unk('retry'))
            if txn['kind'] == 'delegate' and 'retry' not in f.params:
                retry = TRUE    # Deque/Index.transact: verified by rule T6
            filename = benv.get('filename', NONE)
            s.ntxn += 1
            inst = s.ntxn
            ev = self.emit(s, 'TXN_ENTER', ce, inst=inst, retry=retry, filename=filename, tkind=txn['kind'],
                           target=f, recv=txn['recv'], nargs=len(ce.args), kwnames=tuple(kwargs))
            # busy path: BEGIN fails, no retry
            if self.opts.txn_timeout_paths and not (retry.is_const and retry.val is True) \
                    and self.known_truth(retry, s) is not True:
                sb = s.fork()
                self.assume(retry, False, sb)
                self.emit(sb, 'TXN_BUSY', ce, inst=inst)
                alts = [sb]
                if not (filename.is_const and filename.val is None):
                    kn = sb.facts.get(('none', filename))
                    if kn is None:
                        s_none = sb.fork()
                        s_none.facts[('none', filename)] = True
                        sb.facts[('none', filename)] = False
                        alts = [sb, s_none]
                        self.emit(sb, 'REMOVE_NOW', ce, val=filename, why='busy', inst=inst)
                    elif kn is False:
                        self.emit(sb, 'REMOVE_NOW', ce, val=filename, why='busy', inst=inst)
                for a in alts:
                    self.emit(a, 'RAISE', ce, typ='Timeout', at='txn-enter', inst=inst)
                    out.append((('raise', Raise('Timeout', node=ce)), a))
            # body
            s.txn = s.txn + (inst,)
            if item.optional_vars is not None:
                if txn['kind'] == 'manager':
                    bound = tup([V('sqlexec', 'txn', inst), V('cleanupfn', inst)])
                else:
                    bound = NONE
                res = self.assign(item.optional_vars, bound, s, n)
            else:
                res = [s]
            for s1 in res:
                if isinstance(s1, tuple):
                    out.append(s1)
                    continue
                body_results = self.with_items(n, rest, s1)
                for outcome, s2 in body_results:
                    s2.txn = s2.txn[:-1]
                    if outcome[0] == 'cut':
                        out.append((outcome, s2))
                    elif outcome[0] == 'raise':
                        self.emit(s2, 'TXN_EXIT_EXC', ce, inst=inst, typ=outcome[1].typ)
                        out.append((outcome, s2))
                    else:
                        if self.opts.txn_body_raise and outcome[0] == 'next':
                            s3 = s2.fork()
                            self.emit(s3, 'RAISE', ce, typ='ANY', at='txn-body-end', hyp=True)
                            self.emit(s3, 'TXN_EXIT_EXC', ce, inst=inst, typ='ANY')
                            out.append((('raise', Raise('ANY', hyp=True, node=ce)), s3))
                        self.emit(s2, 'TXN_EXIT_OK', ce, inst=inst, how=outcome[0])
                        out.append((outcome, s2))
        return out


def _as_load(t):
    import copy
    t2 = copy.copy(t)
    t2.ctx = ast.Load()
    return t2


def _from_none(n):
    return isinstance(n.cause, ast.Constant) and n.cause.value is None
