"""Call evaluation, inlining and test evaluation (mixin)."""
import ast

from .model import dotted, AnalysisError
from .values import V, C, NONE, TRUE, FALSE, unk, tup, Raise, Ev, canon_exc, src_of
from . import sql as sqlmod
from .interp_expr import _as_text, NEVER_NONE

REPO_RECEIVERS = ('Cache', 'FanoutCache', 'Deque', 'Index', 'DjangoCache', 'Disk', 'JSONDisk')


class CallMixin:
    # ------------------------------------------------------------------ calls
    def e_Call(self, e, st):
        out = []
        kwexprs = [k.value for k in e.keywords]
        for vals, s in self.eval_seq([e.func] + list(e.args) + kwexprs, st):
            if isinstance(vals, Raise):
                out.append((vals, s))
                continue
            fv = vals[0]
            args = [x for a in vals[1:1 + len(e.args)]
                    for x in (a.a[0].a[0] if a.k == 'star' and a.a[0].k == 'tuple' else [a])]
            kwvals = vals[1 + len(e.args):]
            kwargs = {}
            starkw = None
            for k, v in zip(e.keywords, kwvals):
                if k.arg is None:
                    starkw = v
                else:
                    kwargs[k.arg] = v
            res = self.call_value(fv, args, kwargs, e, s, starkw=starkw)
            for v, s2 in res:
                out.append((v, s2))
        return out

    def after_call(self, ev, results, st_before_handlers=None):
        """Fork hypothetical raises at a call site: one per enclosing handler
        type, plus 'ANY' when the option asks for it."""
        out = list(results)
        if ev is None:
            return out
        extra = []
        base_results = [r for r in results if not isinstance(r[0], Raise)]
        if not base_results:
            return out
        _, s0 = base_results[0]
        types = []
        if self.opts.hyp_handlers:
            for hs in s0.handlers:
                for t in hs:
                    if t not in types and t not in ('BaseException', ''):
                        types.append(t)
        if self.opts.raise_any is not None and self.opts.raise_any(ev, s0):
            types.append('ANY')
        for t in types:
            s2 = s0.fork()
            # the fork shares the trace up to and including the call event; the
            # call did not complete
            self.emit(s2, 'RAISE', ev.node, typ=t, at='call', call=ev.seq, hyp=True)
            extra.append((Raise(t, hyp=True, node=ev.node), s2))
        return out + extra

    def call_value(self, fv, args, kwargs, node, st, starkw=None):
        k = fv.k
        # ---- SQL executor
        if k == 'sqlexec':
            return self.do_sql(fv, args, kwargs, node, st)
        if k == 'cleanupfn':
            ev = self.emit(st, 'CLEANUP', node, val=args[0] if args else unk(), inst=fv.a[0])
            return [(NONE, st)]
        if k == 'bound' and fv.a[0].k == 'pathobj':
            return self.call_pathobj(fv.a[0], fv.a[1], args, kwargs, node, st)
        if k == 'bound':
            recv, name = fv.a
            if recv.k == 'cursor' and name in ('fetchall', 'fetchone'):
                return [(V('rows', recv.a[0]) if name == 'fetchall' else V('row', recv.a[0]), st)]
            return self.call_method(recv, name, args, kwargs, node, st, starkw)
        if k == 'attr':
            recv, name = fv.a
            return self.call_attr(recv, name, args, kwargs, node, st, starkw)
        if k == 'func':
            f = self.prog.funcs[fv.a[0]]
            return self.call_func(f, None, args, kwargs, node, st, starkw)
        if k == 'closure':
            # a closure returned by an inlined helper: executed with the bindings it captured
            f = self.prog.funcs[fv.a[0]]
            ev = self.emit(st, 'CALL', node, targets=[f], recv=None, name=f.name, args=args, kwargs=kwargs,
                           starkw=starkw, operator=False)
            ev.d['inlined'] = True
            if len(st.stack) >= self.opts.max_depth:
                return self.after_call(ev, [(V('ret', ev.seq, (f.qual,)), st)])
            env = dict(self._closures[fv.a[1]])
            env.update(self.bind_args(f, None, args, kwargs, st, starkw))
            st.push_frame(f, env, (getattr(node, 'lineno', 0), getattr(node, 'col_offset', 0)))
            out = []
            for outcome, s in self.exec_block(f.node.body, st):
                s.pop_frame()
                kind = outcome[0]
                if kind == 'return':
                    out.append((outcome[1], s))
                elif kind == 'raise':
                    out.append((outcome[1], s))
                elif kind == 'cut':
                    out.append((Raise('CUT'), s))
                else:
                    out.append((NONE, s))
            return out
        if k == 'cls':
            cname = fv.a[0]
            ev = self.emit(st, 'NEW', node, name=cname, args=args, kwargs=kwargs, starkw=starkw)
            res = [(V('new', cname, ev.seq), st)]
            return self.after_call(ev, res)
        if k == 'extfn':
            name = fv.a[0]
            # pathlib objects are transparent wrappers of the path they denote
            args = [a.a[0] if a.k == 'pathobj' else a for a in args]
            kwargs = {kk: (vv.a[0] if vv.k == 'pathobj' else vv) for kk, vv in kwargs.items()}
            if name in ('pathlib.Path', 'pathlib.PurePath', 'pathlib.PosixPath', 'pathlib.PurePosixPath'):
                if len(args) == 1:
                    return [(V('pathobj', args[0]), st)]
                ev = self.emit(st, 'EXT', node, name='os.path.join', args=args, kwargs={})
                return [(V('pathobj', V('ext', 'os.path.join', ev.seq)), st)]
            if name == 'time.time':
                ev = self.emit(st, 'EXT', node, name=name, args=args, kwargs=kwargs)
                return [(V('now', ev.seq), st)]
            if name in ('contextlib.suppress',):
                return [(V('suppress', tuple(args)), st)]
            if name == 'typing.cast' and len(args) == 2 and not kwargs:
                return [(args[1], st)]        # the identity function at run time
            ev = self.emit(st, 'EXT', node, name=name, args=args, kwargs=kwargs)
            res = [(V('ext', name, ev.seq), st)]
            return self.after_call(ev, res)
        if k == 'builtin':
            return self.call_builtin(fv.a[0], args, kwargs, node, st)
        if k == 'ext' and fv.a[0] == 'operator.methodcaller' and len(args) == 1 and isinstance(fv.a[1], int):
            # operator.methodcaller('name', *a, **kw)(obj)  ==  obj.name(*a, **kw)
            mev = st.trace[fv.a[1]]
            margs = mev.d.get('args') or []
            if margs and margs[0].is_const and isinstance(margs[0].val, str):
                return self.call_method(args[0], margs[0].val, list(margs[1:]), dict(mev.d.get('kwargs') or {}),
                                        node, st, None)
        # unknown callee: user function, parameter, closure variable
        ev = self.emit(st, 'UCALL', node, callee=fv, args=args, kwargs=kwargs, starkw=starkw)
        res = [(V('ucall', ev.seq), st)]
        return self.after_call(ev, res)

    PATH_METHODS = {'exists': 'os.path.exists', 'is_dir': 'os.path.isdir', 'is_file': 'os.path.isfile',
                    'unlink': 'os.remove', 'rmdir': 'os.rmdir', 'resolve': 'os.path.realpath',
                    'absolute': 'os.path.abspath', 'expanduser': 'os.path.expanduser', 'iterdir': 'os.listdir',
                    'touch': 'builtins.open'}

    def call_pathobj(self, recv, name, args, kwargs, node, st):
        """A method of a pathlib.Path value: emitted as the os / os.path / builtins call it stands for."""
        inner = recv.a[0]
        args = [a.a[0] if a.k == 'pathobj' else a for a in args]
        if name == 'joinpath':
            ev = self.emit(st, 'EXT', node, name='os.path.join', args=[inner] + args, kwargs={})
            return [(V('pathobj', V('ext', 'os.path.join', ev.seq)), st)]
        if name == 'open':
            ev = self.emit(st, 'EXT', node, name='builtins.open', args=[inner] + args, kwargs=kwargs)
            return self.after_call(ev, [(V('ext', 'builtins.open', ev.seq), st)])
        if name == 'mkdir':
            parents = kwargs.get('parents')
            full = 'os.makedirs' if parents is not None and parents.is_const and parents.val else 'os.mkdir'
            ev = self.emit(st, 'EXT', node, name=full, args=[inner], kwargs={k: v for k, v in kwargs.items()
                                                                            if k in ('exist_ok', 'mode')})
            return self.after_call(ev, [(V('ext', full, ev.seq), st)])
        if name in self.PATH_METHODS:
            full = self.PATH_METHODS[name]
            ev = self.emit(st, 'EXT', node, name=full, args=[inner], kwargs={})
            res = V('ext', full, ev.seq)
            if name in ('resolve', 'absolute', 'expanduser'):
                res = V('pathobj', res)
            out = self.after_call(ev, [(res, st)])
            mo = kwargs.get('missing_ok')
            if name == 'unlink' and mo is not None and mo.is_const and mo.val:
                out = [(v, s) for v, s in out if not (isinstance(v, Raise) and v.typ in ('FileNotFoundError',))]
            return out
        ev = self.emit(st, 'MCALL', node, name=name, recv=recv, args=args, kwargs=kwargs)
        return self.after_call(ev, [(V('mcall', name, ev.seq), st)])

    def call_builtin(self, name, args, kwargs, node, st):
        if any(a.k == 'pathobj' for a in args) and name in ('str', 'open', 'repr'):
            args = [a.a[0] if a.k == 'pathobj' else a for a in args]
            if name == 'str':
                return [(args[0], st)]
        if name == 'len' and args:
            a = args[0]
            if a.k in ('tuple', 'list'):
                return [(C(len(a.a[0])), st)]
            if a.is_const:
                try:
                    return [(C(len(a.val)), st)]
                except Exception:
                    pass
            r = self.dunder_call(node, '__len__', a, [], st)
            if r is not None:
                return r
            return [(V('term', 'len', (a,)), st)]
        if name in ('iter', 'reversed') and len(args) == 1:
            r = self.dunder_call(node, '__iter__' if name == 'iter' else '__reversed__', args[0], [], st)
            if r is not None:
                return r
        if name == 'getattr' and len(args) == 2 and args[1].is_const and isinstance(args[1].val, str):
            return self.get_attr(args[0], args[1].val, node, st)
        if name in ('open', 'getattr', 'setattr', 'delattr', 'hasattr', 'print'):
            ev = self.emit(st, 'EXT', node, name='builtins.' + name, args=args, kwargs=kwargs)
            if name == 'getattr' and len(args) >= 2 and args[1].is_const and isinstance(args[1].val, str):
                # getattr(x, 'name', default): unknown value, no resolution
                pass
            res = [(V('ext', 'builtins.' + name, ev.seq), st)]
            return self.after_call(ev, res)
        if name == 'sum' and len(args) == 2 and not (args[1].is_const and isinstance(args[1].val, (int, float))):
            # sum(xs, start) over sequences: start followed by the concatenation of xs
            return [(V('term', 'Add', (args[1], V('term', 'concat', (args[0],)))), st)]
        if name == 'map' and len(args) == 2:
            # map(f, xs): f applied to the (abstract) element of xs
            seq = args[1]
            if seq.k == 'builtin_call':
                seq = seq
            elem = seq.a[0][0] if seq.k in ('tuple', 'list') and len(seq.a[0]) == 1 else V('elem', seq)
            out = []
            for v, s in self.call_value(args[0], [elem], {}, node, st):
                out.append((v if isinstance(v, Raise) else V('comp', 'map', (v,), id(node)), s))
            return out
        if name == 'bool' and len(args) == 1 and not args[0].is_const:
            return [(args[0], st)]     # only its truthiness is ever used
        if name == 'str' and args and args[0].is_const:
            return [(C(str(args[0].val)), st)]
        if name == 'int' and args and args[0].is_const:
            try:
                return [(C(int(args[0].val)), st)]
            except Exception:
                pass
        if name in ('sorted', 'list', 'reversed') and len(args) == 1 and args[0].k in ('tuple', 'list') \
                and not args[0].a[0]:
            st.nlist += 1
            return [(V('list', (), st.nlist), st)]
        if name == 'tuple' and args and args[0].k in ('tuple', 'list'):
            return [(tup(args[0].a[0]), st)]
        if name == 'type' and len(args) == 1:
            return [(V('typeof', args[0]), st)]
        if name == 'super':
            cls = st.fn.cls
            bases = self.prog.mro(cls)[1:] if cls else []
            return [(V('super', cls, tuple(bases)), st)]
        if name == 'dict' and args and args[0].k == 'rows':
            return [(V('dictof', args[0]), st)]
        return [(V('term', name, tuple(args)), st)]

    # --------------------------------------------------------------- SQL
    def do_sql(self, fv, args, kwargs, node, st):
        stmtv = args[0] if args else unk('stmt')
        text = _as_text(stmtv)
        stmt = sqlmod.parse(text) if text is not None else None
        params = None
        if len(args) > 1:
            p = args[1]
            if p.k in ('tuple', 'list'):
                params = list(p.a[0])
            elif p.is_const and isinstance(p.val, (tuple, list)):
                params = [C(x) for x in p.val]
            else:
                params = p
        ev = self.emit(st, 'SQL', node, stmt=stmt, text=text, stmtv=stmtv, params=params, flavour=fv.a[0],
                       inst=st.txn[-1] if st.txn else None)
        self.sql_sites.setdefault((st.fn.qual, node.lineno, node.col_offset), set()).add(text)
        res = [(V('cursor', ev.seq), st)]
        # protocol raise: BEGIN may fail busy
        if stmt is not None and stmt.kind == 'begin' and self.opts.begin_raises:
            s2 = st.fork()
            self.emit(s2, 'RAISE', node, typ='sqlite3.OperationalError', at='begin', call=ev.seq)
            res.append((Raise('sqlite3.OperationalError', node=node), s2))
            return res
        return self.after_call(ev, res)

    # ------------------------------------------------------------ methods
    def dunder_call(self, node, name, recv, args, st):
        types = [t for t in self.type_of(recv, st) if t in self.prog.classes]
        if not types:
            return None
        targets = [f for f in (self.prog.lookup(t, name) for t in types) if f is not None]
        if not targets:
            return None
        return self.call_targets(targets, recv, name, args, {}, node, st, None, operator=True)

    def call_method(self, recv, name, args, kwargs, node, st, starkw):
        if recv.k == 'self':
            f = self.prog.lookup(recv.a[0], name)
            if f is not None:
                return self.call_targets([f], recv, name, args, kwargs, node, st, starkw)
        types = [t for t in self.type_of(recv, st) if t in self.prog.classes]
        targets = [f for f in (self.prog.lookup(t, name) for t in types) if f is not None]
        if targets:
            # subclasses defined in the package override (JSONDisk)
            for cname, ci in self.prog.classes.items():
                if cname not in types and any(t in self.prog.mro(cname)[1:] for t in types) and name in ci.methods:
                    targets.append(ci.methods[name])
            return self.call_targets(targets, recv, name, args, kwargs, node, st, starkw)
        return self.call_attr(recv, name, args, kwargs, node, st, starkw)

    def call_attr(self, recv, name, args, kwargs, node, st, starkw):
        # string / list methods on known values
        t = _as_text(recv)
        if t is not None:
            if name == 'format':
                return [(self.str_format(t, args, kwargs), st)]
            if name == 'join':
                if args and args[0].k in ('tuple', 'list') and all(x.is_const for x in args[0].a[0]):
                    return [(C(t.join(str(x.val) for x in args[0].a[0])), st)]
                return [(V('str', sqlmod.hole('join'), tuple(args)), st)]
            if recv.is_const and all(a.is_const for a in args) and name in (
                    'startswith', 'endswith', 'upper', 'lower', 'strip', 'split', 'encode', 'rfind', 'find', 'replace'):
                try:
                    return [(C(getattr(recv.val, name)(*[a.val for a in args])), st)]
                except Exception:
                    pass
        if recv.k == 'list' and name == 'append' and len(args) == 1:
            st.rebind(recv, V('list', recv.a[0] + (args[0],), recv.a[1]))
            return [(NONE, st)]
        if recv.k == 'mdict' and name in ('items', 'keys', 'values') and not args:
            st.nlist += 1
            if name == 'items':
                items = tuple(tup([k, v]) for k, v in recv.a[0])
            elif name == 'keys':
                items = tuple(k for k, v in recv.a[0])
            else:
                items = tuple(v for k, v in recv.a[0])
            return [(V('list', items, st.nlist), st)]
        if recv.k == 'mdict' and name == 'get' and args:
            for k, v in reversed(recv.a[0]):
                if k == args[0]:
                    return [(v, st)]
        if recv.is_const and isinstance(recv.val, dict) and name in ('items', 'keys', 'values') and not args:
            try:
                return [(C(list(getattr(recv.val, name)())), st)]
            except Exception:
                pass
        if recv.k == 'super':
            cls, bases = recv.a
            for b in bases:
                f = self.prog.lookup(b, name)
                if f is not None:
                    return self.call_targets([f], V('self', cls), name, args, kwargs, node, st, starkw, via_super=True)
        if recv.k == 'cursor' and name in ('fetchall', 'fetchone'):
            return [(V('rows', recv.a[0]), st)]
        if recv.k == 'typed':
            return self.call_method(recv, name, args, kwargs, node, st, starkw)
        if recv.k == 'extfn':
            full = recv.a[0] + '.' + name
            ev = self.emit(st, 'EXT', node, name=full, args=args, kwargs=kwargs)
            return self.after_call(ev, [(V('ext', full, ev.seq), st)])
        if recv.k == 'con':
            ev = self.emit(st, 'EXT', node, name='sqlite3.Connection.' + name, args=args, kwargs=kwargs)
            return self.after_call(ev, [(V('ext', 'con.' + name, ev.seq), st)])
        ev = self.emit(st, 'MCALL', node, recv=recv, name=name, args=args, kwargs=kwargs, starkw=starkw)
        return self.after_call(ev, [(V('mcall', name, ev.seq), st)])

    def is_disk_class(self, cls):
        """Disk or a subclass of it defined in the package."""
        seen = 0
        while cls is not None and seen < 6:
            if cls == 'Disk':
                return True
            ci = self.prog.classes.get(cls)
            if ci is None or not ci.bases:
                return False
            cls = ci.bases[0].split('.')[-1]
            seen += 1
        return False

    def call_targets(self, targets, recv, name, args, kwargs, node, st, starkw, operator=False, via_super=False):
        quals = {f.qual for f in targets}
        special = None
        if all(f.name == 'put' and self.is_disk_class(f.cls) for f in targets):
            special = 'put'
        elif all(f.name == 'store' and self.is_disk_class(f.cls) for f in targets):
            special = 'store'
        ev = self.emit(st, 'CALL', node, targets=targets, recv=recv, name=name, args=args, kwargs=kwargs,
                       starkw=starkw, operator=operator)
        self.ncalls_resolved += 1
        if len(targets) == 1 and self.should_inline(targets[0], st, len(args), tuple(kwargs)):
            ev.d['inlined'] = True
            res = self.inline(targets[0], recv, args, kwargs, node, st, starkw)
            return self.after_call(ev, res) if self.opts.raise_inlined else res
        if special == 'put':
            res = [(tup([V('putelt', ev.seq, 0), V('putelt', ev.seq, 1)]), st)]
        elif special == 'store':
            res = [(tup([V('storeelt', ev.seq, i) for i in range(4)]), st)]
        else:
            res = [(V('ret', ev.seq, tuple(sorted(quals))), st)]
        return self.after_call(ev, res)

    def call_func(self, f, recv, args, kwargs, node, st, starkw):
        ev = self.emit(st, 'CALL', node, targets=[f], recv=recv, name=f.name, args=args, kwargs=kwargs,
                       starkw=starkw, operator=False)
        self.ncalls_resolved += 1
        if self.should_inline(f, st, len(args), tuple(kwargs)):
            ev.d['inlined'] = True
            return self.inline(f, recv, args, kwargs, node, st, starkw)
        return self.after_call(ev, [(V('ret', ev.seq, (f.qual,)), st)])

    def should_inline(self, f, st, nargs=0, kwnames=()):
        if f in st.stack or len(st.stack) > self.opts.max_depth:
            return False
        if f.is_generator and not f.is_contextmanager:
            return False
        if f.is_contextmanager:
            return False
        if self.opts.inline is not None and self.opts.inline.__name__ == 'default_inline':
            # a closure whose defining function is active (handed to a helper as a callback)
            if f.parent is not None and (f.parent in st.stack or f.parent is st.fn) and f is not st.fn:
                return True
            # a private method inherited from a base class / mixin of the package
            if f.cls is not None and st.fn.cls is not None and f.cls != st.fn.cls and f.name.startswith('_') \
                    and not f.name.startswith('__') and not f.is_property and self.is_base_of(f.cls, st.fn.cls):
                return True
        return self.opts.inline(f, st.fn, nargs, kwnames)

    def is_base_of(self, base, cls, depth=0):
        ci = self.prog.classes.get(cls)
        if ci is None or depth > 5:
            return False
        for b in ci.bases:
            b = b.split('.')[-1]
            if b == base or self.is_base_of(base, b, depth + 1):
                return True
        return False

    def bind_args(self, f, recv, args, kwargs, st, starkw=None):
        env = {}
        params = list(f.posparams)
        if f.cls and f.parent is None and not f.is_static and params:
            env[params[0]] = recv if recv is not None and recv.k == 'self' else V('self', f.cls)
            if recv is not None and recv.k != 'self':
                env[params[0]] = V('typed', (f.cls,), recv)
            params = params[1:]
        pos = []
        for a in args:
            if a.k == 'star':
                inner = a.a[0]
                if inner.k in ('tuple', 'list'):
                    pos.extend(inner.a[0])
                else:
                    pos.append(unk('star'))
            else:
                pos.append(a)
        for p, a in zip(params, pos):
            env[p] = a
        if f.vararg:
            env[f.vararg] = tup(pos[len(params):])
            if not params and len(args) == 1 and args[0].k == 'star' and args[0].a[0].k not in ('tuple', 'list'):
                env[f.vararg] = args[0].a[0]        # f(*xs) received as *args: the same sequence
        extra = {}
        for k, v in kwargs.items():
            if k in params or k in f.kwonly:
                env[k] = v
            else:
                extra[k] = v
        if f.kwarg:
            env[f.kwarg] = V('dict', tuple((C(k), v) for k, v in extra.items()))
            if not extra and starkw is not None:
                env[f.kwarg] = starkw               # f(**kw) received as **kwargs: the same mapping
        for p in params + f.kwonly:
            if p not in env:
                d = f.defaults.get(p)
                if d is not None:
                    try:
                        env[p] = C(self.fold(d, f.module))
                    except ValueError:
                        if isinstance(d, ast.Name):
                            env[p] = self.lookup_name_in_module(d.id, f.module)
                        else:
                            env[p] = unk('default:' + p)
                else:
                    env[p] = unk('missing:' + p)
        return env

    def lookup_name_in_module(self, name, module):
        mi = self.prog.modules[module]
        if name in mi.classes:
            return V('cls', name)
        if name in mi.consts:
            try:
                return C(self.fold(mi.consts[name], module))
            except ValueError:
                return V('modconst', module, name)
        return V('global', name)

    def inline(self, f, recv, args, kwargs, node, st, starkw):
        env = self.bind_args(f, recv, args, kwargs, st, starkw)
        if f.parent is st.fn:
            # local closure: free variables read the caller's bindings
            cenv = dict(st.env)
            cenv.update(env)
            env = cenv
        elif f.parent is not None:
            # a closure called back from a helper: free variables read the bindings of its defining activation
            for fr_fn, fr_env, _ in reversed(st.frames):
                if fr_fn is f.parent:
                    cenv = dict(fr_env)
                    cenv.update(env)
                    env = cenv
                    break
        saved_env, saved_fn = st.env, st.fn
        st.push_frame(f, env, (getattr(node, 'lineno', 0), getattr(node, 'col_offset', 0)))
        out = []
        for outcome, s in self.exec_block(f.node.body, st):
            frame_env = s.env
            s.pop_frame()
            kind = outcome[0]
            if kind in ('next',):
                out.append((NONE, s))
            elif kind == 'return':
                rv = outcome[1]
                if rv.k == 'func' and rv.a[0] in self.prog.funcs and self.prog.funcs[rv.a[0]].parent is f \
                        and not self.prog.funcs[rv.a[0]].is_generator:
                    # a helper that returns one of its closures: keep the bindings it closes over
                    table = self.__dict__.setdefault('_closures', [])
                    table.append(dict(frame_env))
                    rv = V('closure', rv.a[0], len(table) - 1)
                out.append((rv, s))
            elif kind == 'raise':
                out.append((outcome[1], s))
            elif kind == 'cut':
                out.append((Raise('CUT'), s))
            else:
                out.append((NONE, s))
        return out

    # -------------------------------------------------------------- tests
    def eval_test(self, e, st):
        """Evaluate a condition; returns list of (bool | Raise, St), forking on
        unknown atoms (short-circuit order) and recording facts."""
        if isinstance(e, ast.BoolOp):
            def rec(i, s):
                res = []
                for t, s1 in self.eval_test(e.values[i], s):
                    if isinstance(t, Raise):
                        res.append((t, s1))
                        continue
                    if i == len(e.values) - 1:
                        res.append((t, s1))
                    elif isinstance(e.op, ast.And):
                        if not t:
                            res.append((False, s1))
                        else:
                            res.extend(rec(i + 1, s1))
                    else:
                        if t:
                            res.append((True, s1))
                        else:
                            res.extend(rec(i + 1, s1))
                return res
            return rec(0, st)
        if isinstance(e, ast.UnaryOp) and isinstance(e.op, ast.Not):
            return [((not t) if not isinstance(t, Raise) else t, s) for t, s in self.eval_test(e.operand, st)]
        out = []
        for v, s in self.eval(e, st):
            if isinstance(v, Raise):
                out.append((v, s))
                continue
            out.extend(self.truth_of(v, e, s))
        return out

    def truth_of(self, v, node, st):
        t = self.known_truth(v, st)
        if t is not None:
            self.emit(st, 'TEST', node, val=v, truth=t, src=src_of(node), decided=True)
            return [(t, st)]
        out = []
        for t in (True, False):
            s = st.fork()
            self.assume(v, t, s)
            self.emit(s, 'TEST', node, val=v, truth=t, src=src_of(node), decided=False)
            out.append((t, s))
        return out

    def known_truth(self, v, st):
        if v.is_const:
            try:
                return bool(v.val)
            except Exception:
                return None
        if v.k in ('tuple', 'list'):
            if v.k == 'list':
                return None
            return len(v.a[0]) > 0
        if v.k == 'not':
            t = self.known_truth(v.a[0], st)
            return None if t is None else (not t)
        if v.k == 'cmp':
            ops, vals = v.a
            if len(ops) == 1 and ops[0] in ('Is', 'IsNot', 'Eq', 'NotEq'):
                a, b = vals
                for x, y in ((a, b), (b, a)):
                    if y.is_const:
                        known = st.facts.get(('is', x))
                        if known is not None and known[0] == 'k':
                            try:
                                eq = (known[1] is y.val) if ops[0] in ('Is', 'IsNot') and y.val is None else (known[1] == y.val)
                                return eq if ops[0] in ('Is', 'Eq') else (not eq)
                            except Exception:
                                pass
                        if y.val is None and ops[0] in ('Is', 'IsNot'):
                            f = st.facts.get(('none', x))
                            if f is not None:
                                return f if ops[0] == 'Is' else (not f)
                            tf = st.facts.get(('truthy', x))
                            if tf is True:
                                return ops[0] == 'IsNot'
                f = st.facts.get(('eq', frozenset((a, b)))) if a != b else True
                if f is not None:
                    return f if ops[0] in ('Is', 'Eq') else (not f)
            if len(ops) == 1 and ops[0] in ('In', 'NotIn'):
                # membership in a display of constants, decided from what the path already knows about the value
                x, seq = vals
                elems = list(seq.a[0]) if seq.k in ('tuple', 'list') else (
                    [C(e) for e in seq.val] if seq.is_const and isinstance(seq.val, (tuple, list, frozenset, set)) else None)
                if elems is not None and all(e.is_const for e in elems):
                    verdicts = [self.known_truth(V('cmp', ('Eq',), (x, e)), st) for e in elems]
                    if any(t is True for t in verdicts):
                        return ops[0] == 'In'
                    if all(t is False for t in verdicts):
                        return ops[0] == 'NotIn'
        f = st.facts.get(('truthy', v))
        if f is not None:
            return f
        if v.k == 'term' and v.a[0] in ('sorted', 'list', 'tuple', 'reversed', 'enumerate') and len(v.a[1]) == 1:
            return self.known_truth(v.a[1][0], st)      # as empty as what it was built from
        if v.k == 'mcall' and v.a[0] in ('items', 'keys', 'values') and isinstance(v.a[1], int) \
                and v.a[1] < len(st.trace):
            recv = st.trace[v.a[1]].d.get('recv')
            if recv is not None and recv.k != 'selfattr':
                return self.known_truth(recv, st)       # a non-empty mapping has items
        if v.k == 'term' and v.a[0] == 'len' and len(v.a[1]) == 1:
            fx = st.facts.get(('truthy', v.a[1][0]))
            if fx is not None:
                return fx      # len(x) is truthy exactly when x is non-empty
        lc = self._len_cmp(v)
        if lc is not None:
            fx = st.facts.get(('truthy', lc[0]))
            if fx is not None:
                return lc[1] if fx else (not lc[1])
        if v.k == 'term' and v.a[0] == 'range' and all(x.is_const for x in v.a[1]):
            try:
                return len(range(*[x.val for x in v.a[1]])) > 0
            except Exception:
                return None
        if v.k in ('now', 'sqlexec', 'cleanupfn', 'bound', 'func', 'cls', 'new', 'self'):
            return True
        return None

    def _len_cmp(self, v):
        """cmp between len(X) and a constant 0/1 -> (X, set of truth values of the cmp under which X is non-empty)"""
        if v.k != 'cmp' or len(v.a[0]) != 1 or len(v.a[1]) != 2:
            return None
        op = v.a[0][0]
        a, b = v.a[1]
        flip = False
        if b.k == 'term' and b.a[0] == 'len' and a.is_const:
            a, b = b, a
            flip = True
        if not (a.k == 'term' and a.a[0] == 'len' and len(a.a[1]) == 1 and b.is_const and b.val in (0, 1)
                and not isinstance(b.val, bool)):
            return None
        if flip:
            op = {'Lt': 'Gt', 'LtE': 'GtE', 'Gt': 'Lt', 'GtE': 'LtE'}.get(op, op)
        x = a.a[1][0]
        c = b.val
        # truth of (len op c) for len == 0 and for len >= 1 (taking len = 1 and a large value)
        def ev(n):
            return {'Lt': n < c, 'LtE': n <= c, 'Gt': n > c, 'GtE': n >= c, 'Eq': n == c, 'NotEq': n != c}.get(op)
        if ev(0) is None:
            return None
        e0, e1, e9 = ev(0), ev(1), ev(9)
        if e1 != e9 or e0 == e1:
            return None
        return x, e1   # cmp is e1 exactly when X is non-empty

    def assume(self, v, truth, st):
        st.facts[('truthy', v)] = truth
        if v.k == 'term' and v.a[0] in ('sorted', 'list', 'tuple', 'reversed', 'enumerate') and len(v.a[1]) == 1:
            self.assume(v.a[1][0], truth, st)
        if v.k == 'term' and v.a[0] == 'len' and len(v.a[1]) == 1:
            st.facts[('truthy', v.a[1][0])] = truth
        lc = self._len_cmp(v)
        if lc is not None:
            x, when_nonempty = lc
            st.facts[('truthy', x)] = (truth == when_nonempty)
        if v.k == 'not':
            self.assume(v.a[0], not truth, st)
        elif v.k == 'cmp':
            ops, vals = v.a
            if len(ops) == 1 and ops[0] in ('Is', 'IsNot', 'Eq', 'NotEq'):
                a, b = vals
                pos = truth if ops[0] in ('Is', 'Eq') else (not truth)
                for x, y in ((a, b), (b, a)):
                    if y.is_const and y.val is None and ops[0] in ('Is', 'IsNot'):
                        st.facts[('none', x)] = pos
                        if pos:
                            st.facts[('truthy', x)] = False
                    elif y.is_const and pos:
                        st.facts[('is', x)] = ('k', y.val)
                st.facts[('eq', frozenset((a, b)))] = pos
        else:
            if truth:
                st.facts[('none', v)] = False
