"""Expression evaluation of the structural path interpreter (mixin)."""
import ast
import re

from .model import dotted, AnalysisError
from .values import V, C, NONE, TRUE, FALSE, unk, tup, Raise, Ev, canon_exc, src_of
from . import sql as sqlmod

# receiver typing table (DESIGN §3.2): (class, self attribute) -> repo types
FIELD_TYPES = {
    ('Cache', '_disk'): ('Disk',),
    ('FanoutCache', '_shards'): ('seq:Cache',),
    ('FanoutCache', '_hash'): ('bound:Disk.hash',),
    ('Deque', '_cache'): ('Cache',),
    ('Index', '_cache'): ('Cache',),
    ('DjangoCache', '_cache'): ('FanoutCache',),
    ('Averager', '_cache'): ('Cache', 'FanoutCache'),
    ('Lock', '_cache'): ('Cache', 'FanoutCache'),
    ('RLock', '_cache'): ('Cache', 'FanoutCache'),
    ('BoundedSemaphore', '_cache'): ('Cache', 'FanoutCache'),
}
# parameters / free variables named `cache` in recipes are the documented duck type
PARAM_TYPES = {
    ('recipes', 'cache'): ('Cache', 'FanoutCache'),
    ('persistent', 'cache'): ('Cache',),
}
PURE_BUILTINS = {'len', 'str', 'int', 'float', 'bool', 'tuple', 'list', 'dict', 'set', 'sorted', 'sum', 'min', 'max',
                 'abs', 'range', 'enumerate', 'zip', 'isinstance', 'issubclass', 'callable', 'type', 'repr', 'bytes',
                 'any', 'all', 'iter', 'next', 'reversed', 'frozenset', 'id', 'hash', 'super', 'map', 'filter'}
EFFECT_BUILTINS = {'open', 'getattr', 'setattr', 'delattr', 'print', 'hasattr'}


def _specs_of(v):
    """Format specs of the holes of a partially known string (None where unknown)."""
    n = v.a[0].count('⟦')
    if len(v.a) > 2 and len(v.a[2]) == n:
        return list(v.a[2])
    return [None] * n


class ExprMixin:
    # ------------------------------------------------------------------ utils
    def emit(self, st, kind, node, **d):
        ev = Ev(kind, node, st.fn, d)
        ev.txn = st.txn
        ev.handlers = st.handlers
        ev.seq = len(st.trace)
        ev.stack = tuple(f.qual for f in st.stack)
        ev.sites = st.sites
        st.trace.append(ev)
        self.nevents += 1
        return ev

    def type_of(self, v, st):
        """Repo classes a value may be an instance of."""
        k = v.k
        if k == 'self':
            return (v.a[0],)
        if k == 'selfattr':
            cls, name = v.a
            return FIELD_TYPES.get((cls, name), ())
        if k == 'new':
            return (v.a[0],)
        if k in ('elem', 'item'):
            t = self.type_of(v.a[0], st)
            return tuple(x[4:] for x in t if x.startswith('seq:'))
        if k in ('iterof', 'slice'):
            return self.type_of(v.a[0], st)
        if k == 'term' and v.a[0] == 'reversed' and v.a[1]:
            return self.type_of(v.a[1][0], st)
        if k in ('param', 'free'):
            mod = v.a[1] if len(v.a) > 1 else None
            return PARAM_TYPES.get((mod, v.a[0]), ())
        if k == 'typed':
            return v.a[0]
        return ()

    def fold(self, expr, module):
        """Constant-fold a module-level expression to a python object."""
        if isinstance(expr, ast.Constant):
            return expr.value
        if isinstance(expr, ast.Dict):
            return {self.fold(k, module): self.fold(v, module) for k, v in zip(expr.keys, expr.values)}
        if isinstance(expr, ast.Tuple):
            return tuple(self.fold(e, module) for e in expr.elts)
        if isinstance(expr, ast.List):
            return [self.fold(e, module) for e in expr.elts]
        if isinstance(expr, ast.Set):
            return frozenset(self.fold(e, module) for e in expr.elts)
        if isinstance(expr, ast.BinOp):
            l, r = self.fold(expr.left, module), self.fold(expr.right, module)
            return _binop(expr.op, l, r)
        if isinstance(expr, ast.UnaryOp) and isinstance(expr.op, ast.USub):
            return -self.fold(expr.operand, module)
        if isinstance(expr, ast.Name):
            e, m = self.prog.const_expr(module, expr.id)
            if e is not None:
                return self.fold(e, m)
        raise ValueError('not foldable: %s' % src_of(expr))

    # ------------------------------------------------------------ evaluation
    def eval(self, e, st):
        """Evaluate expression; returns list of (V | Raise, St)."""
        m = getattr(self, 'e_' + type(e).__name__, None)
        if m is None:
            return self.e_generic(e, st)
        return m(e, st)

    def eval_seq(self, exprs, st):
        """Evaluate expressions left to right; list of (list[V] | Raise, St)."""
        results = [([], st)]
        for e in exprs:
            nxt = []
            for vals, s in results:
                if isinstance(vals, Raise):
                    nxt.append((vals, s))
                    continue
                for v, s2 in self.eval(e, s):
                    if isinstance(v, Raise):
                        nxt.append((v, s2))
                    else:
                        nxt.append((vals + [v], s2))
            results = nxt
        return results

    def e_generic(self, e, st):
        # evaluate children for their events, value unknown
        kids = [c for c in ast.iter_child_nodes(e) if isinstance(c, ast.expr)]
        out = []
        for vals, s in self.eval_seq(kids, st):
            out.append((vals if isinstance(vals, Raise) else unk(type(e).__name__), s))
        return out

    def e_Constant(self, e, st):
        return [(C(e.value), st)]

    def e_Name(self, e, st):
        return [(self.lookup_name(e.id, st), st)]

    def lookup_name(self, name, st):
        if name in st.env:
            return st.env[name]
        fn = st.fn
        if name in fn.nested:
            return V('func', fn.nested[name].qual)
        # enclosing function scopes
        p = fn.parent
        cur = fn
        while p is not None:
            if name in p.nested:
                return V('func', p.nested[name].qual)
            if name in _assigned_names(p):
                if name == 'self' and p.cls:
                    return V('self', p.cls)
                return V('free', name, fn.module, p.qual)
            p = p.parent
        if name == 'self' and fn.cls:
            return V('self', fn.cls)
        mi = self.prog.modules[fn.module]
        if name in mi.funcs:
            return V('func', mi.funcs[name].qual)
        if name in mi.classes:
            return V('cls', name)
        if name in mi.consts:
            try:
                return C(self.fold(mi.consts[name], fn.module))
            except ValueError:
                v = self.eval_module_const(fn.module, name)
                return v if v is not None else V('modconst', fn.module, name)
        if name in mi.imports:
            tgt = mi.imports[name]
            if tgt.startswith('pkg:'):
                m, n = tgt[4:].split('.', 1)
                if m in self.prog.modules:
                    om = self.prog.modules[m]
                    if n in om.classes:
                        return V('cls', n)
                    if n in om.funcs:
                        return V('func', om.funcs[n].qual)
                    if n in om.consts:
                        try:
                            return C(self.fold(om.consts[n], m))
                        except ValueError:
                            v = self.eval_module_const(m, n)
                            return v if v is not None else V('modconst', m, n)
                return V('extfn', tgt)
            return V('extfn', tgt)
        if name in PURE_BUILTINS or name in EFFECT_BUILTINS:
            return V('builtin', name)
        if name in ('True', 'False', 'None'):
            return C({'True': True, 'False': False, 'None': None}[name])
        import builtins
        if hasattr(builtins, name):
            return V('builtin', name)
        return V('global', name)

    def eval_module_const(self, module, name):
        """Evaluate a module-level assignment abstractly (string building, comprehensions over constants).
        Returns a value only if it is fully known (constants / tuples of constants / strings)."""
        cache = self.__dict__.setdefault('_modconst_cache', {})
        key = (module, name)
        if key in cache:
            return cache[key]
        cache[key] = None
        expr = self.prog.modules[module].consts.get(name)
        if expr is None or isinstance(expr, ast.Call) and not isinstance(expr.func, (ast.Attribute, ast.Name)):
            return None
        from .interp import St
        from .model import Func
        fake = ast.parse('def __module__():\n    pass').body[0]
        st = St(Func('%s.<module>' % module, module, None, '<module>', fake))
        try:
            res = self.eval(expr, st)
        except Exception:
            return None
        if len(res) != 1 or isinstance(res[0][0], Raise) or res[0][1].trace:
            return None
        v = res[0][0]

        def known(x):
            return x.is_const or x.k in ('modconst', 'cls', 'extfn') or (x.k == 'tuple' and all(known(y) for y in x.a[0]))
        if known(v):
            cache[key] = v
        return cache[key]

    def e_Tuple(self, e, st):
        if any(isinstance(x, ast.Starred) for x in e.elts):
            # (*a, x, *b)  ==  tuple(a) + (x,) + tuple(b): represented as the equivalent concatenation
            out = []
            for vals, s in self.eval_seq(e.elts, st):
                if isinstance(vals, Raise):
                    out.append((vals, s))
                    continue
                segs, cur = [], []
                for v in vals:
                    if v.k == 'star':
                        inner = v.a[0]
                        if inner.k == 'tuple':
                            cur.extend(inner.a[0])
                            continue
                        if cur:
                            segs.append(tup(cur))
                            cur = []
                        segs.append(inner)
                    else:
                        cur.append(v)
                if cur:
                    segs.append(tup(cur))
                acc = segs[0] if segs else tup(())
                for sg in segs[1:]:
                    acc = V('term', 'Add', (acc, sg))
                out.append((acc, s))
            return out
        return [(vals if isinstance(vals, Raise) else tup(vals), s) for vals, s in self.eval_seq(e.elts, st)]

    def e_List(self, e, st):
        out = []
        for vals, s in self.eval_seq(e.elts, st):
            if isinstance(vals, Raise):
                out.append((vals, s))
            else:
                s.nlist += 1
                out.append((V('list', tuple(vals), s.nlist), s))
        return out

    def e_Set(self, e, st):
        out = []
        for vals, s in self.eval_seq(e.elts, st):
            if isinstance(vals, Raise):
                out.append((vals, s))
            elif all(v.is_const for v in vals):
                out.append((C(frozenset(v.val for v in vals)), s))
            else:
                out.append((V('set', tuple(vals)), s))
        return out

    def e_Dict(self, e, st):
        if e.keys and all(k is None for k in e.keys):
            # {**a, **b, ...}: a merge of mappings, later ones override
            out = []
            for vals, s in self.eval_seq(list(e.values), st):
                out.append((vals if isinstance(vals, Raise) else V('merge', tuple(vals)), s))
            return out
        if any(k is None for k in e.keys):
            return self.e_generic(e, st)
        out = []
        for vals, s in self.eval_seq(list(e.keys) + list(e.values), st):
            if isinstance(vals, Raise):
                out.append((vals, s))
                continue
            n = len(e.keys)
            ks, vs = vals[:n], vals[n:]
            if n == 0:
                s.nlist += 1
                out.append((V('mdict', (), s.nlist), s))
                continue
            if all(v.is_const for v in vals):
                try:
                    out.append((C({k.val: v.val for k, v in zip(ks, vs)}), s))
                    continue
                except TypeError:
                    pass
            out.append((V('dict', tuple(zip(ks, vs))), s))
        return out

    def e_JoinedStr(self, e, st):
        text = ''
        cur = [([], st)]
        parts = []
        for p in e.values:
            if isinstance(p, ast.Constant):
                parts.append(p.value)
            else:
                parts.append(p)
        out = []
        exprs = [p.value for p in parts if not isinstance(p, str)]
        for vals, s in self.eval_seq(exprs, st):
            if isinstance(vals, Raise):
                out.append((vals, s))
                continue
            it = iter(vals)
            text = ''
            exact = True
            specs = []
            for p in parts:
                if isinstance(p, str):
                    text += p
                else:
                    v = next(it)
                    spec = ''
                    if p.format_spec is not None and all(isinstance(x, ast.Constant) for x in p.format_spec.values):
                        spec = ''.join(x.value for x in p.format_spec.values)
                    if v.is_const and p.conversion in (-1, 115, 114, 97):
                        try:
                            cv = {-1: lambda x: x, 115: str, 114: repr, 97: ascii}[p.conversion](v.val)
                            text += format(cv, spec)
                            continue
                        except Exception:
                            pass
                    exact = False
                    if v.k == 'str' and p.conversion in (-1, 115) and not spec:
                        text += v.a[0]
                        specs.extend(_specs_of(v))
                    else:
                        text += sqlmod.hole(src_of(p.value))
                        specs.append(spec if p.conversion == -1 else None)
            deps = tuple(x for x in vals if not x.is_const)
            out.append(((C(text) if exact else V('str', text, deps, tuple(specs))), s))
        return out

    def e_IfExp(self, e, st):
        out = []
        for truth, s in self.eval_test(e.test, st):
            if isinstance(truth, Raise):
                out.append((truth, s))
                continue
            out.extend(self.eval(e.body if truth else e.orelse, s))
        return out

    def e_BoolOp(self, e, st):
        # value context: evaluate operands for events with short-circuit
        # semantics; the value is the deciding operand when it is known.
        def rec(i, s):
            res = []
            for v, s1 in self.eval(e.values[i], s):
                if isinstance(v, Raise) or i == len(e.values) - 1:
                    res.append((v, s1))
                    continue
                for truth, s2 in self.truth_of(v, e.values[i], s1):
                    stop = (not truth) if isinstance(e.op, ast.And) else truth
                    if stop:
                        res.append((v, s2))
                    else:
                        res.extend(rec(i + 1, s2))
            return res
        return rec(0, st)

    def e_UnaryOp(self, e, st):
        out = []
        for v, s in self.eval(e.operand, st):
            if isinstance(v, Raise):
                out.append((v, s))
            elif isinstance(e.op, ast.Not):
                if v.is_const:
                    out.append((C(not v.val), s))
                else:
                    out.append((V('not', v), s))
            elif isinstance(e.op, ast.USub):
                if v.is_const and isinstance(v.val, (int, float)):
                    out.append((C(-v.val), s))
                else:
                    out.append((V('term', 'neg', (v,)), s))
            else:
                out.append((V('term', type(e.op).__name__, (v,)), s))
        return out

    def e_Compare(self, e, st):
        out = []
        for vals, s in self.eval_seq([e.left] + list(e.comparators), st):
            if isinstance(vals, Raise):
                out.append((vals, s))
                continue
            # operator form `k in x` on a repo-typed receiver
            if len(e.ops) == 1 and isinstance(e.ops[0], (ast.In, ast.NotIn)):
                r = self.dunder_call(e, '__contains__', vals[1], [vals[0]], s)
                if r is not None:
                    out.extend(r)
                    continue
            cv = self.const_compare(e.ops, vals)
            if cv is not None:
                out.append((C(cv), s))
            else:
                names = tuple(type(o).__name__ for o in e.ops)
                # canonical operand order: `None is x`, `0 < n` are the same comparisons as `x is None`, `n > 0`
                mirror = {'Lt': 'Gt', 'Gt': 'Lt', 'LtE': 'GtE', 'GtE': 'LtE', 'Is': 'Is', 'IsNot': 'IsNot',
                          'Eq': 'Eq', 'NotEq': 'NotEq'}
                if len(names) == 1 and names[0] in mirror and vals[0].is_const and not vals[1].is_const:
                    names, vals = (mirror[names[0]],), (vals[1], vals[0])
                out.append((V('cmp', names, tuple(vals)), s))
        return out

    def const_compare(self, ops, vals):
        if not all(v.is_const for v in vals):
            # `x is None` with x of a kind that can never be None
            if len(ops) == 1 and isinstance(ops[0], (ast.Is, ast.IsNot)):
                a, b = vals
                for x, y in ((a, b), (b, a)):
                    if y.is_const and y.val is None and x.k in NEVER_NONE:
                        return isinstance(ops[0], ast.IsNot)
                # identity of two named library objects (operator.eq is operator.eq)
                if a.k == b.k == 'extfn':
                    return (a.a[0] == b.a[0]) == isinstance(ops[0], ast.Is)
            return None
        try:
            l = vals[0].val
            for o, r in zip(ops, vals[1:]):
                r = r.val
                ok = _cmp(o, l, r)
                if not ok:
                    return False
                l = r
            return True
        except Exception:
            return None

    def e_BinOp(self, e, st):
        out = []
        for vals, s in self.eval_seq([e.left, e.right], st):
            if isinstance(vals, Raise):
                out.append((vals, s))
                continue
            if isinstance(e.op, ast.Div) and (vals[0].k == 'pathobj' or vals[1].k == 'pathobj'):
                # pathlib: a / b  ==  os.path.join(a, b)
                parts = [x.a[0] if x.k == 'pathobj' else x for x in vals]
                ev = self.emit(s, 'EXT', e, name='os.path.join', args=parts, kwargs={})
                out.append((V('pathobj', V('ext', 'os.path.join', ev.seq)), s))
                continue
            out.append((self.binop(e.op, vals[0], vals[1]), s))
        return out

    def binop(self, op, l, r):
        if l.is_const and r.is_const:
            try:
                return C(_binop(op, l.val, r.val))
            except Exception:
                pass
        if isinstance(op, ast.Add):
            if l.k == 'tuple' and r.k == 'tuple':
                return tup(l.a[0] + r.a[0])
            if l.is_const and isinstance(l.val, tuple) and r.k == 'tuple':
                return tup(tuple(C(x) for x in l.val) + r.a[0])
            if r.is_const and isinstance(r.val, tuple) and l.k == 'tuple':
                return tup(l.a[0] + tuple(C(x) for x in r.val))
            ls, rs = _as_text(l), _as_text(r)
            if ls is not None and rs is not None and (l.k in ('const', 'str') and isinstance(ls, str)) \
                    and (l.k == 'str' or isinstance(l.val, str)):
                return V('str', ls + rs, tuple(x for x in (l, r) if not x.is_const))
            if ls is not None and isinstance(ls, str) and (l.k == 'str' or (l.is_const and isinstance(l.val, str))):
                return V('str', ls + sqlmod.hole('expr'))
            if rs is not None and (r.k == 'str' or (r.is_const and isinstance(r.val, str))):
                return V('str', sqlmod.hole('expr') + rs)
        if isinstance(op, ast.Mod):
            lt = _as_text(l)
            if lt is not None and (l.k == 'str' or isinstance(l.val, str)):
                return self.percent_format(lt, r)
        return V('term', type(op).__name__, (l, r))

    def percent_format(self, template, r):
        args = list(r.a[0]) if r.k == 'tuple' else ([C(x) for x in r.val] if r.is_const and isinstance(r.val, tuple) else [r])
        it = iter(args)
        exact = [True]
        specs = []      # format() spec of every hole, in order (so that the text can be instantiated later)

        def sub(m):
            if m.group(0) == '%%':
                return '%'
            try:
                a = next(it)
            except StopIteration:
                exact[0] = False
                specs.append(None)
                return sqlmod.hole('missing')
            t = _as_text(a)
            if a.is_const:
                try:
                    return m.group(0) % (a.val,)
                except Exception:
                    pass
            if a.k == 'str':
                exact[0] = False
                specs.extend(_specs_of(a))
                return t
            exact[0] = False
            conv = m.group(0)[-1]
            specs.append({'s': '', 'r': '!r'}.get(conv, m.group(0)[1:]) if conv in 'sr' and len(m.group(0)) == 2
                         else (m.group(0)[1:] if conv in 'dif' else None))
            return sqlmod.hole(_desc(a))
        text = re.sub(r'%%|%[-0-9.]*[sdrif]', sub, template)
        deps = tuple(a for a in args if not a.is_const)
        return C(text) if exact[0] and '⟦' not in text else V('str', text, deps, tuple(specs))

    def str_format(self, template, args, kwargs):
        it = iter(range(len(args)))
        exact = [True]

        def sub(m):
            if m.group(0) in ('{{', '}}'):
                return m.group(0)[0]
            field, _, spec = m.group(1).partition(':')
            if field == '':
                try:
                    a = args[next(it)]
                except StopIteration:
                    a = None
            elif field.isdigit():
                a = args[int(field)] if int(field) < len(args) else None
            else:
                a = kwargs.get(field)
            if a is None:
                exact[0] = False
                specs.append(None)
                return sqlmod.hole(field or 'arg')
            if a.is_const:
                try:
                    return format(a.val, spec)
                except Exception:
                    pass
            exact[0] = False
            if a.k == 'str':
                specs.extend(_specs_of(a))
                return a.a[0]
            specs.append(spec)
            return sqlmod.hole(field if field and not field.isdigit() else _desc(a))
        specs = []
        text = re.sub(r'\{\{|\}\}|\{([^{}]*)\}', sub, template)
        deps = tuple(a for a in list(args) + list(kwargs.values()) if not a.is_const)
        return C(text) if exact[0] and '⟦' not in text else V('str', text, deps, tuple(specs))

    # ------------------------------------------------------------- attribute
    def e_Attribute(self, e, st):
        d = dotted(e)
        if d:
            head = d.split('.')[0]
            if head not in st.env and head != 'self':
                mi = self.prog.modules[st.fn.module]
                if head in mi.imports and not mi.imports[head].startswith('pkg:'):
                    full = self.prog.resolve_name(st.fn.module, d)
                    return [(V('extfn', full), st)]
        out = []
        for base, s in self.eval(e.value, st):
            if isinstance(base, Raise):
                out.append((base, s))
                continue
            out.extend(self.get_attr(base, e.attr, e, s))
        return out

    def get_attr(self, base, attr, node, st):
        if base.k == 'pathobj':
            if attr in ('parent', 'name'):
                full = 'os.path.dirname' if attr == 'parent' else 'os.path.basename'
                ev = self.emit(st, 'EXT', node, name=full, args=[base.a[0]], kwargs={})
                v = V('ext', full, ev.seq)
                return [(V('pathobj', v) if attr == 'parent' else v, st)]
            return [(V('bound', base, attr), st)]
        if base.k == 'self':
            cls = base.a[0]
            if (cls, attr) in st.selfenv:
                return [(st.selfenv[(cls, attr)], st)]
            f = self.prog.lookup(cls, attr) if cls in self.prog.classes else None
            if f is not None and f.is_property:
                return self.property_value(base, f, node, st)
            if f is not None:
                return [(V('bound', base, attr), st)]
            # class-level constant (e.g. `_EMPTY = (0.0, 0)` in the class body), unless an instance attribute of the
            # same name is assigned somewhere
            ci = self.prog.classes.get(cls)
            if ci is not None and attr in ci.aliases and not isinstance(ci.aliases[attr], ast.Name):
                try:
                    return [(C(self.fold(ci.aliases[attr], ci.module)), st)]
                except ValueError:
                    pass
            return [(V('selfattr', cls, attr), st)]
        types = self.type_of(base, st)
        for t in types:
            if t in self.prog.classes:
                f = self.prog.lookup(t, attr)
                if f is not None and f.is_property:
                    return self.property_value(V('typed', (t,), base), f, node, st)
                if f is not None:
                    return [(V('bound', base, attr), st)]
        if base.k == 'cls' and base.a[0] in self.prog.classes:
            f = self.prog.lookup(base.a[0], attr)
            if f is not None:
                return [(V('func', f.qual), st)]
        if base.k == 'cursor' and attr in ('fetchall', 'fetchone'):
            return [(V('bound', base, attr), st)]
        if base.k == 'con' and attr == 'execute':
            return [(V('sqlexec', 'con'), st)]
        if base.k == 'extfn':
            return [(V('extfn', base.a[0] + '.' + attr), st)]
        return [(V('attr', base, attr), st)]

    def property_value(self, recv, f, node, st):
        roles = self.prog.roles
        if f is roles.get('sql_prop'):
            return [(V('sqlexec', 'plain'), st)]
        if f is roles.get('sql_retry_prop'):
            return [(V('sqlexec', 'retry'), st)]
        if f is roles.get('con_getter'):
            self.emit(st, 'CONGET', node)
            return [(V('con'), st)]
        # trivial getter: `return self._x`
        body = [s for s in f.node.body if not (isinstance(s, ast.Expr) and isinstance(s.value, ast.Constant))]
        if len(body) == 1 and isinstance(body[0], ast.Return) and isinstance(body[0].value, ast.Attribute) \
                and isinstance(body[0].value.value, ast.Name) and body[0].value.value.id == 'self':
            inner = body[0].value.attr
            if recv.k == 'self':
                return self.get_attr(recv, inner, node, st)
            cls = f.cls
            return [(V('selfattr', cls, inner) if recv.k == 'self' else V('attr', recv, inner), st)]
        return [(V('prop', recv, f.qual), st)]

    # ------------------------------------------------------------- subscript
    def e_Subscript(self, e, st):
        out = []
        idx_exprs = [e.slice] if not isinstance(e.slice, ast.Slice) else \
            [x for x in (e.slice.lower, e.slice.upper, e.slice.step) if x is not None]
        for vals, s in self.eval_seq([e.value] + idx_exprs, st):
            if isinstance(vals, Raise):
                out.append((vals, s))
                continue
            base = vals[0]
            if isinstance(e.slice, ast.Slice):
                # a constant slice of a result row is the tuple of those columns
                if base.k == 'row' and e.slice.step is None and all(
                        b is None or (isinstance(b, ast.Constant) and isinstance(b.value, int))
                        for b in (e.slice.lower, e.slice.upper)):
                    stmt = s.trace[base.a[0]].d.get('stmt') if base.a[0] < len(s.trace) else None
                    if stmt is not None and stmt.kind == 'select' and stmt.colnames:
                        rng = range(*slice(e.slice.lower.value if e.slice.lower else None,
                                           e.slice.upper.value if e.slice.upper else None).indices(len(stmt.colnames)))
                        out.append((tup([self.col_of(base.a[0], i, s, e) for i in rng]), s))
                        continue
                out.append((V('slice', base, src_of(e.slice)), s))
                continue
            idx = vals[1]
            if isinstance(e.ctx, ast.Load):
                r = self.dunder_call(e, '__getitem__', base, [idx], s)
                if r is not None:
                    out.extend(r)
                    continue
            out.extend(self.subscript(base, idx, e, s))
        return out

    def subscript(self, base, idx, node, st):
        if base.is_const and isinstance(base.val, (dict, tuple, list, str)):
            coll = base.val
            if idx.is_const:
                try:
                    return [(C(coll[idx.val]), st)]
                except Exception:
                    return [(Raise('KeyError' if isinstance(coll, dict) else 'IndexError', node=node), st)]
            # unknown key: nondeterministic choice, remembered per key value
            keys = list(coll.keys()) if isinstance(coll, dict) else list(range(len(coll)))
            known = st.facts.get(('is', idx))
            out = []
            for k in keys:
                if known is not None and known != ('k', k):
                    continue
                s2 = st if known is not None else st.fork()
                s2.facts[('is', idx)] = ('k', k)
                self.emit(s2, 'CHOICE', node, key=idx, chosen=k)
                out.append((C(coll[k]), s2))
            return out
        if base.k in ('tuple', 'list') and idx.is_const and isinstance(idx.val, int):
            items = base.a[0]
            try:
                return [(items[idx.val], st)]
            except IndexError:
                return [(Raise('IndexError', node=node), st)]
        if base.k == 'rows' and idx.is_const and isinstance(idx.val, int):
            return [(V('row', base.a[0]), st)]
        if base.k == 'row' and idx.is_const and isinstance(idx.val, int):
            return [(self.col_of(base.a[0], idx.val, st, node), st)]
        if idx.is_const and isinstance(idx.val, int) and not isinstance(idx.val, bool) and idx.val >= 0 \
                and base.k in ('ret', 'ucall', 'mcall'):
            out = [(V('field', base, idx.val), st)]     # same value as the i-th target of `a, b = <call result>`
        else:
            out = [(V('item', base, idx), st)]
        # a lookup on an unknown container may raise: fork into enclosing KeyError/IndexError handlers
        if self.opts.hyp_handlers and isinstance(node.ctx, ast.Load):
            for t in ('KeyError', 'IndexError'):
                if any(t in hs or 'LookupError' in hs for hs in st.handlers):
                    s2 = st.fork()
                    self.emit(s2, 'RAISE', node, typ=t, at='subscript', hyp=True)
                    out.append((Raise(t, hyp=True, node=node), s2))
        return out

    def col_of(self, selseq, i, st, node):
        ev = st.trace[selseq]
        stmt = ev.d.get('stmt')
        if stmt is not None and stmt.kind == 'select' and stmt.colnames:
            n = len(stmt.colnames)
            if -n <= i < n:
                return V('col', selseq, stmt.colnames[i], i % n)
            self.emit(st, 'UNPACK_MISMATCH', node, sel=selseq, want=i, have=n)
        return V('col', selseq, '#%d' % i, i)

    # ---------------------------------------------------------------- lambda
    def e_Lambda(self, e, st):
        return [(V('lambda', id(e)), st)]

    def _comp_concrete(self, e, elts, st):
        """Single-generator comprehension over a fully known sequence: evaluate it element by element."""
        if len(e.generators) != 1 or len(elts) != 1:
            return None
        g = e.generators[0]
        its = self.eval(g.iter, st)
        if len(its) != 1 or isinstance(its[0][0], Raise):
            return None
        itv, s = its[0]
        seq = self.const_sequence(itv)
        if seq is None or len(seq) > 64:
            return None
        saved = dict(s.env)
        vals = []
        for elem in seq:
            r = self.assign(g.target, elem, s, g.iter)
            if len(r) != 1 or isinstance(r[0], tuple):
                return None
            keep = True
            for cond in g.ifs:
                t = self.eval_test(cond, s)
                if len(t) != 1 or isinstance(t[0][0], Raise):
                    return None
                keep = keep and t[0][0]
                s = t[0][1]
            if not keep:
                continue
            ev = self.eval(elts[0], s)
            if len(ev) != 1 or isinstance(ev[0][0], Raise):
                return None
            vals.append(ev[0][0])
            s = ev[0][1]
        for nn in ast.walk(g.target):
            if isinstance(nn, ast.Name):
                if nn.id in saved:
                    s.env[nn.id] = saved[nn.id]
                else:
                    s.env.pop(nn.id, None)
        return [(tup(vals), s)]

    def _comp(self, e, elts, st):
        c = self._comp_concrete(e, elts, st.fork())
        if c is not None:
            return c
        # evaluate generators once with element values bound, emit events of elt
        s = st
        saved = dict(s.env)
        results = [s]
        empty_iter = False
        for g in e.generators:
            nxt = []
            for s1 in results:
                for it, s2 in self.eval(g.iter, s1):
                    if isinstance(it, Raise):
                        continue
                    if it.k in ('tuple', 'list') and not it.a[0] and it.k != 'list' or \
                            (it.k == 'list' and not it.a[0] and len(it.a) > 1 and it.a[1] and self._list_final(it, s2)):
                        empty_iter = True
                    self.bind_loop_target(g.target, it, s2, g.iter)
                    ss = [s2]
                    for cond in g.ifs:
                        ss2 = []
                        for s3 in ss:
                            for truth, s4 in self.eval_test(cond, s3):
                                if truth is True:
                                    ss2.append(s4)     # only elements that pass the filter are produced
                        ss = ss2 or ss
                    nxt.extend(ss)
            results = nxt
        out = []
        for s1 in results:
            for vals, s2 in self.eval_seq(elts, s1):
                # restore outer bindings of comprehension variables
                for g in e.generators:
                    for n in ast.walk(g.target):
                        if isinstance(n, ast.Name):
                            if n.id in saved:
                                s2.env[n.id] = saved[n.id]
                            else:
                                s2.env.pop(n.id, None)
                if isinstance(vals, Raise):
                    out.append((vals, s2))
                elif empty_iter:
                    out.append((tup(()), s2))      # comprehension over a container known to be empty
                else:
                    out.append((V('comp', type(e).__name__, tuple(vals), id(e)), s2))
        return out or [(unk('comp'), st)]

    def _list_final(self, lv, st):
        """A tracked list value is only known-empty if it is the current content bound to some name."""
        return any(v == lv for v in st.env.values())

    def e_ListComp(self, e, st):
        return self._comp(e, [e.elt], st)

    def e_SetComp(self, e, st):
        return self._comp(e, [e.elt], st)

    def e_GeneratorExp(self, e, st):
        return self._comp(e, [e.elt], st)

    def e_DictComp(self, e, st):
        return self._comp(e, [e.key, e.value], st)

    def e_Yield(self, e, st):
        out = []
        vals = self.eval(e.value, st) if e.value is not None else [(NONE, st)]
        for v, s in vals:
            if isinstance(v, Raise):
                out.append((v, s))
                continue
            self.emit(s, 'YIELD', e, value=v)
            if self.opts.yield_raises:
                s2 = s.fork()
                self.emit(s2, 'RAISE', e, typ='ANY', at='yield')
                out.append((Raise('ANY', node=e), s2))
            out.append((unk('sent'), s))
        return out

    def e_Await(self, e, st):
        return self.eval(e.value, st)

    def e_Starred(self, e, st):
        return [(V('star', v) if not isinstance(v, Raise) else v, s) for v, s in self.eval(e.value, st)]

    def e_NamedExpr(self, e, st):
        out = []
        for v, s in self.eval(e.value, st):
            if not isinstance(v, Raise):
                s.env[e.target.id] = v
            out.append((v, s))
        return out


NEVER_NONE = {'tuple', 'list', 'rows', 'row', 'now', 'sqlexec', 'cleanupfn', 'bound', 'func', 'cls', 'new', 'self',
              'str', 'dict', 'set', 'comp', 'cursor', 'extfn', 'builtin', 'lambda', 'con', 'newlist'}


def _assigned_names(func):
    if hasattr(func, '_assigned'):
        return func._assigned
    names = set(func.posparams) | set(func.kwonly)
    if func.vararg:
        names.add(func.vararg)
    if func.kwarg:
        names.add(func.kwarg)
    from .model import walk_shallow
    for n in walk_shallow(func.node):
        if isinstance(n, ast.Name) and isinstance(n.ctx, ast.Store):
            names.add(n.id)
    func._assigned = names
    return names


def _binop(op, l, r):
    if isinstance(op, ast.Add):
        return l + r
    if isinstance(op, ast.Sub):
        return l - r
    if isinstance(op, ast.Mult):
        return l * r
    if isinstance(op, ast.Pow):
        if isinstance(r, int) and abs(r) > 200:
            raise ValueError
        return l ** r
    if isinstance(op, ast.Mod):
        return l % r
    if isinstance(op, ast.Div):
        return l / r
    if isinstance(op, ast.FloorDiv):
        return l // r
    if isinstance(op, ast.BitAnd):
        return l & r
    if isinstance(op, ast.BitOr):
        return l | r
    raise ValueError('op')


def _cmp(o, l, r):
    if isinstance(o, ast.Eq):
        return l == r
    if isinstance(o, ast.NotEq):
        return l != r
    if isinstance(o, ast.Lt):
        return l < r
    if isinstance(o, ast.LtE):
        return l <= r
    if isinstance(o, ast.Gt):
        return l > r
    if isinstance(o, ast.GtE):
        return l >= r
    if isinstance(o, ast.Is):
        return l is r
    if isinstance(o, ast.IsNot):
        return l is not r
    if isinstance(o, ast.In):
        return l in r
    if isinstance(o, ast.NotIn):
        return l not in r
    raise ValueError


def _as_text(v):
    if v.is_const and isinstance(v.val, str):
        return v.val
    if v.k == 'str':
        return v.a[0]
    return None


def _desc(v):
    if v.k in ('param', 'free'):
        return v.a[0]
    if v.k == 'selfattr':
        return 'self.' + v.a[1]
    if v.k == 'now':
        return 'now'
    if v.k == 'col':
        return 'col:' + str(v.a[1])
    return v.k
