"""Program model of /repo/diskcache: modules, classes, functions, imports,
module constants, repo-local MRO, class-level aliases, role discovery.

Nothing here imports or executes the analysed package; everything is derived
from `ast.parse` of the working tree at the moment of the run.
"""
import ast
import hashlib
import os

REPO = os.environ.get('VERIF_REPO', '/repo')
PKG = 'diskcache'
MODULES = ('core', 'fanout', 'persistent', 'recipes', 'djangocache')


class AnalysisError(Exception):
    """Raised when the analysis itself cannot proceed (exit code 2)."""


class Func:
    def __init__(self, qual, module, cls, name, node, parent=None):
        self.qual = qual
        self.module = module
        self.cls = cls
        self.name = name
        self.node = node
        self.parent = parent
        self.decorators = [dotted(d) or (dotted(d.func) if isinstance(d, ast.Call) else '') or ''
                           for d in node.decorator_list]
        a = node.args
        self.posparams = [p.arg for p in a.posonlyargs + a.args]
        self.kwonly = [p.arg for p in a.kwonlyargs]
        self.vararg = a.vararg.arg if a.vararg else None
        self.kwarg = a.kwarg.arg if a.kwarg else None
        self.defaults = {}
        pos = a.posonlyargs + a.args
        for p, d in zip(pos[len(pos) - len(a.defaults):], a.defaults):
            self.defaults[p.arg] = d
        for p, d in zip(a.kwonlyargs, a.kw_defaults):
            if d is not None:
                self.defaults[p.arg] = d
        self.nested = {}

    @property
    def params(self):
        ps = list(self.posparams)
        if self.cls and not self.is_static and ps and self.parent is None:
            return ps[1:]
        return ps

    @property
    def is_static(self):
        return 'staticmethod' in self.decorators

    @property
    def is_property(self):
        return 'property' in self.decorators

    @property
    def is_contextmanager(self):
        return any(d.endswith('contextmanager') for d in self.decorators)

    @property
    def is_generator(self):
        for n in walk_shallow(self.node):
            if isinstance(n, (ast.Yield, ast.YieldFrom)):
                return True
        return False

    @property
    def is_public(self):
        n = self.name
        return not n.startswith('_') or (n.startswith('__') and n.endswith('__'))

    def loc(self, node=None):
        node = node or self.node
        return '%s/%s.py:%d' % (PKG, self.module, getattr(node, 'lineno', 0))

    def __repr__(self):
        return '<Func %s>' % self.qual


def walk_shallow(fnode):
    """Walk a function body without descending into nested defs/lambdas."""
    stack = list(fnode.body)
    while stack:
        n = stack.pop()
        yield n
        for c in ast.iter_child_nodes(n):
            if isinstance(c, (ast.FunctionDef, ast.AsyncFunctionDef, ast.ClassDef, ast.Lambda)):
                continue
            stack.append(c)


def dotted(node):
    """Return 'a.b.c' for Name/Attribute chains, else None."""
    parts = []
    while isinstance(node, ast.Attribute):
        parts.append(node.attr)
        node = node.value
    if isinstance(node, ast.Name):
        parts.append(node.id)
        return '.'.join(reversed(parts))
    return None


class ClassInfo:
    def __init__(self, name, module, node):
        self.name = name
        self.module = module
        self.node = node
        self.bases = [dotted(b) or '' for b in node.bases]
        self.methods = {}
        self.aliases = {}    # name -> ast expr (class-level assignments)
        self.properties = {}


class ModuleInfo:
    def __init__(self, name, path, src, tree):
        self.name = name
        self.path = path
        self.src = src
        self.tree = tree
        self.imports = {}   # local alias -> fully qualified external or 'pkg:core.Cache'
        self.consts = {}    # module-level NAME -> ast expr
        self.funcs = {}
        self.classes = {}
        self.late_assign = []  # module-level `A.b = expr`


class _DropAnnotations(ast.NodeTransformer):
    """Annotated assignments are analysed as the plain assignments they are at run time (`x: T = v` -> `x = v`;
    a bare `x: T` declares nothing)."""

    def visit_AnnAssign(self, n):
        self.generic_visit(n)
        if n.value is None:
            return ast.copy_location(ast.Pass(), n)
        new = ast.Assign(targets=[n.target], value=n.value)
        return ast.copy_location(new, n)


class Program:
    def __init__(self, repo=None):
        self.repo = repo or REPO
        self.modules = {}
        self.classes = {}
        self.funcs = {}
        self.digest = None
        self._load()
        self._discover_roles()

    # ------------------------------------------------------------------ load
    def _load(self):
        h = hashlib.sha256()
        pkgdir = os.path.join(self.repo, PKG)
        if not os.path.isdir(pkgdir):
            raise AnalysisError('package directory %s missing' % pkgdir)
        for m in MODULES:
            path = os.path.join(pkgdir, m + '.py')
            if not os.path.isfile(path):
                raise AnalysisError('module %s missing' % path)
            with open(path, 'rb') as f:
                raw = f.read()
            h.update(raw)
            src = raw.decode('utf-8')
            try:
                tree = _DropAnnotations().visit(ast.parse(src, filename=path))
            except SyntaxError as e:
                raise AnalysisError('syntax error in %s: %s' % (path, e))
            mi = ModuleInfo(m, path, src, tree)
            self.modules[m] = mi
            self._index_module(mi)
        # other files in the package (for layering rules)
        self.other_files = sorted(
            f for f in os.listdir(pkgdir)
            if f.endswith('.py') and f[:-3] not in MODULES)
        self.digest = h.hexdigest()

    def _index_module(self, mi):
        for node in mi.tree.body:
            self._index_stmt(mi, node)

    def _index_stmt(self, mi, node):
        if isinstance(node, ast.Import):
            for a in node.names:
                mi.imports[a.asname or a.name.split('.')[0]] = a.name if a.asname else a.name.split('.')[0]
        elif isinstance(node, ast.ImportFrom):
            for a in node.names:
                local = a.asname or a.name
                if node.level >= 1:
                    mi.imports[local] = 'pkg:%s.%s' % (node.module, a.name)
                else:
                    mi.imports[local] = '%s.%s' % (node.module, a.name)
        elif isinstance(node, ast.Try):
            for s in node.body:
                self._index_stmt(mi, s)
            # fall-back definitions in handlers (DEFAULT_TIMEOUT = 300): only if not yet known
            for h in node.handlers:
                for s in h.body:
                    if isinstance(s, ast.Assign) and len(s.targets) == 1 and isinstance(s.targets[0], ast.Name):
                        mi.consts.setdefault(s.targets[0].id, s.value)
        elif isinstance(node, ast.Assign):
            for t in node.targets:
                if isinstance(t, ast.Name):
                    mi.consts[t.id] = node.value
                elif isinstance(t, ast.Attribute):
                    mi.late_assign.append((t, node.value))
        elif isinstance(node, ast.FunctionDef):
            f = Func('%s.%s' % (mi.name, node.name), mi.name, None, node.name, node)
            mi.funcs[node.name] = f
            self.funcs[f.qual] = f
            self._index_nested(f)
        elif isinstance(node, ast.ClassDef):
            ci = ClassInfo(node.name, mi.name, node)
            mi.classes[node.name] = ci
            self.classes[node.name] = ci
            for s in node.body:
                if isinstance(s, ast.FunctionDef):
                    f = Func('%s.%s.%s' % (mi.name, node.name, s.name), mi.name, node.name, s.name, s)
                    if any((dotted(d) or '').endswith('.setter') for d in s.decorator_list):
                        f.qual += '@setter'
                        ci.methods[s.name + '@setter'] = f
                    else:
                        ci.methods[s.name] = f
                        if f.is_property:
                            ci.properties[s.name] = f
                    self.funcs[f.qual] = f
                    self._index_nested(f)
                elif isinstance(s, ast.Assign):
                    for t in s.targets:
                        if isinstance(t, ast.Name):
                            ci.aliases[t.id] = s.value

    def _index_nested(self, f):
        for n in walk_shallow(f.node):
            pass
        # direct nested defs, recursively
        def rec(parent):
            for n in _direct_defs(parent.node):
                g = Func('%s.<locals>.%s' % (parent.qual, n.name), parent.module, parent.cls, n.name, n, parent)
                parent.nested[n.name] = g
                self.funcs[g.qual] = g
                rec(g)
        rec(f)

    # ------------------------------------------------------------- lookups
    def mro(self, cls):
        out = []
        seen = set()
        def rec(c):
            if c in seen or c not in self.classes:
                return
            seen.add(c)
            out.append(c)
            for b in self.classes[c].bases:
                rec(b.split('.')[-1])
        rec(cls)
        return out

    def lookup(self, cls, name, _depth=0):
        """Resolve method `name` on repo class `cls` through MRO, class-level
        aliases (`_append = append`) and module-level late assignments
        (`FanoutCache.memoize = Cache.memoize`)."""
        if _depth > 4:
            return None
        for c in self.mro(cls):
            ci = self.classes[c]
            if name in ci.methods:
                return ci.methods[name]
            if name in ci.aliases:
                e = ci.aliases[name]
                if isinstance(e, ast.Name) and (e.id in ci.methods or e.id in ci.aliases):
                    return self.lookup(c, e.id, _depth + 1)
                d = dotted(e)
                if d and '.' in d:
                    oc, on = d.rsplit('.', 1)
                    if oc in self.classes:
                        return self.lookup(oc, on, _depth + 1)
                return None
            mi = self.modules[ci.module]
            for t, v in mi.late_assign:
                if dotted(t) == '%s.%s' % (c, name):
                    d = dotted(v)
                    if d and '.' in d:
                        oc, on = d.rsplit('.', 1)
                        if oc in self.classes:
                            return self.lookup(oc, on, _depth + 1)
        return None

    def alias_expr(self, cls, name):
        for c in self.mro(cls):
            ci = self.classes[c]
            if name in ci.methods:
                return None
            if name in ci.aliases:
                return ci.aliases[name]
        return None

    def func(self, qual):
        f = self.funcs.get(qual)
        if f is None:
            # `module.Class.method` inherited from a base class or mixin of the package: analyse the inherited
            # body with `self` typed as the subclass
            parts = qual.split('.')
            if len(parts) == 3 and parts[1] in self.classes and self.classes[parts[1]].module == parts[0]:
                g = self.lookup(parts[1], parts[2])
                if g is not None and g.cls != parts[1]:
                    import copy
                    f = copy.copy(g)
                    f.cls = parts[1]
                    f.qual = qual
                    self.funcs[qual] = f
                    return f
            raise AnalysisError('anchor vanished: function %s not found' % qual)
        return f

    def method(self, cls, name):
        if cls not in self.classes:
            raise AnalysisError('anchor vanished: class %s not found' % cls)
        f = self.lookup(cls, name)
        if f is None:
            raise AnalysisError('anchor vanished: method %s.%s not found' % (cls, name))
        return f

    def resolve_name(self, module, name):
        """Resolve a dotted name used in `module` to a fully qualified external
        name ('time.time'), or 'pkg:core.Cache' for package objects."""
        mi = self.modules[module]
        head, _, rest = name.partition('.')
        if head in mi.imports:
            base = mi.imports[head]
            return base + ('.' + rest if rest else '')
        if head in mi.classes or head in mi.funcs or head in mi.consts:
            return 'pkg:%s.%s' % (module, name)
        return name

    def const_expr(self, module, name):
        """AST of module-level constant `name` visible in `module` (follows
        package imports)."""
        mi = self.modules[module]
        if name in mi.consts:
            return mi.consts[name], module
        tgt = mi.imports.get(name)
        if tgt and tgt.startswith('pkg:'):
            m, n = tgt[4:].split('.', 1)
            if m in self.modules and n in self.modules[m].consts:
                return self.modules[m].consts[n], m
        return None, None

    def all_funcs(self):
        return list(self.funcs.values())

    # ---------------------------------------------------------- role discovery
    def _discover_roles(self):
        """Find private helpers by what they do, not by what they are called."""
        self.roles = {}
        cache = self.classes.get('Cache')
        if cache is None:
            raise AnalysisError('anchor vanished: class Cache')
        # connection getter: property containing a call to sqlite3.connect
        for name, f in cache.methods.items():
            if not f.is_property:
                continue
            for n in walk_shallow(f.node):
                if isinstance(n, ast.Call) and self.resolve_name(f.module, dotted(n.func) or '') == 'sqlite3.connect':
                    self.roles['con_getter'] = f
        if 'con_getter' not in self.roles:
            raise AnalysisError('anchor vanished: no property of Cache calls sqlite3.connect')
        con_name = self.roles['con_getter'].name
        # sql exec property: returns self.<con>.execute
        for name, f in cache.methods.items():
            if not f.is_property:
                continue
            for n in walk_shallow(f.node):
                if isinstance(n, ast.Return) and isinstance(n.value, ast.Attribute) and n.value.attr == 'execute' \
                        and dotted(n.value.value) == 'self.' + con_name:
                    self.roles['sql_prop'] = f
        if 'sql_prop' not in self.roles:
            raise AnalysisError('anchor vanished: no property of Cache returns the connection execute method')
        sql_name = self.roles['sql_prop'].name
        # retrying exec property: property returning a nested function that forwards its first param to a sql exec
        for name, f in cache.methods.items():
            if not f.is_property or f is self.roles['sql_prop']:
                continue
            uses_sql = any(isinstance(n, ast.Attribute) and dotted(n) == 'self.' + sql_name for n in walk_shallow(f.node))
            rets_nested = any(isinstance(n, ast.Return) and isinstance(n.value, ast.Name) and n.value.id in f.nested
                              for n in walk_shallow(f.node))
            # ... or binds the sql exec into a module-level function (functools.partial(<func>, self._sql))
            rets_partial = any(isinstance(n, ast.Return) and isinstance(n.value, ast.Call)
                               and (dotted(n.value.func) or '').split('.')[-1] == 'partial'
                               and len(n.value.args) >= 2 and dotted(n.value.args[1]) == 'self.' + sql_name
                               for n in walk_shallow(f.node))
            if uses_sql and (rets_nested or rets_partial):
                self.roles['sql_retry_prop'] = f
        # transaction manager: contextmanager method executing a BEGIN statement and yielding
        def executes_begin(f, depth=0):
            for n in walk_shallow(f.node):
                if isinstance(n, ast.Call) and n.args:
                    a0 = n.args[0]
                    if isinstance(a0, ast.Name):        # statement text held in a module-level constant
                        ce = self.const_expr(f.module, a0.id)
                        if ce and ce[0] is not None:
                            a0 = ce[0]
                    if isinstance(a0, ast.Constant) and isinstance(a0.value, str) \
                            and a0.value.strip().upper().startswith('BEGIN'):
                        return True
                # ... or in a private helper method it calls
                if isinstance(n, ast.Call) and depth < 3 and (dotted(n.func) or '').startswith('self._'):
                    h = cache.methods.get(dotted(n.func)[5:])
                    if h is not None and h is not f and not h.is_property and not h.is_contextmanager \
                            and executes_begin(h, depth + 1):
                        return True
            return False
        for name, f in cache.methods.items():
            if f.is_contextmanager and executes_begin(f):
                self.roles['txn_manager'] = f
        if 'txn_manager' not in self.roles:
            raise AnalysisError('anchor vanished: no contextmanager method of Cache executes BEGIN')
        # public transact: contextmanager whose body is a with on the manager
        mgr = self.roles['txn_manager'].name
        for name, f in cache.methods.items():
            if f.is_contextmanager and f is not self.roles['txn_manager']:
                for n in walk_shallow(f.node):
                    if isinstance(n, ast.With):
                        for it in n.items:
                            c = it.context_expr
                            if isinstance(c, ast.Call) and dotted(c.func) == 'self.' + mgr:
                                self.roles['public_transact'] = f
        if 'public_transact' not in self.roles:
            raise AnalysisError('anchor vanished: no public contextmanager of Cache wraps the transaction manager')

    def src_line(self, module, lineno):
        lines = self.modules[module].src.split('\n')
        if 1 <= lineno <= len(lines):
            return lines[lineno - 1].strip()
        return ''


def _direct_defs(fnode):
    out = []
    stack = list(fnode.body)
    while stack:
        n = stack.pop(0)
        if isinstance(n, (ast.FunctionDef, ast.AsyncFunctionDef)):
            out.append(n)
            continue
        if isinstance(n, (ast.ClassDef, ast.Lambda)):
            continue
        stack.extend(ast.iter_child_nodes(n))
    return out
