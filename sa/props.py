"""Property -> rules table (DESIGN §5).  Importing this module registers all rules."""
from . import rules_txn  # noqa: F401

_OPTIONAL = ['rules_lock', 'rules_file', 'rules_codec', 'rules_expiry', 'rules_evict', 'rules_queue', 'rules_shard',
             'rules_retry', 'rules_memo', 'rules_check', 'rules_persist', 'rules_django', 'rules_recipes']
import importlib
for _m in _OPTIONAL:
    try:
        importlib.import_module('sa.' + _m)
    except ModuleNotFoundError as e:
        if e.name != 'sa.' + _m:
            raise

from .framework import RULES


def P(rules, technique, explanation, not_decided):
    return {'rules': rules, 'technique': technique, 'explanation': explanation, 'not_decided': not_decided}


_ALL = {
    'C01': P(['K1', 'K2', 'K3', 'K4', 'K5', 'F1', 'F2', 'L7'],
             'codec table agreement per storage mode + SQL column binding dataflow',
             'Decides the structural necessary conditions of the round trip: every mode written by Disk.store is '
             'dispatched by Disk.fetch and returns on all paths (K1); writer and reader recipes agree per mode - '
             'inline/file discriminator, open mode, codec, newline handling, strict errors, read to EOF (K2); floats '
             'stored natively exclude NaN (K3); JSONDisk wraps both directions symmetrically (K4); every fetch '
             'receives mode/filename/value of one SELECT and every store result reaches the row writer in column '
             'order (K5); value files are created exclusively and written completely (F1, F2); only core touches '
             'storage (L7).',
             'Equality over the value domain itself (pickle/SQLite/JSON fidelity, size-threshold arithmetic) '
             'quantifies over runtime values and is not decided.'),
    'C05': P(['T1', 'T2', 'T3', 'L1', 'L2', 'L5', 'L6', 'L7', 'F1', 'V1a', 'K5'],
             'lock-discipline analysis over enumerated paths with transaction context',
             'Decides that the transaction manager takes the write lock at BEGIN, admits only the owner thread to '
             'nest and commits xor rolls back on every path (T1-T3); every row write executes inside a transaction '
             'block (L1); every read-modify-write has its SELECT in the same block instance as the write it drives '
             '(L2); the lock-free get path is taken only when nothing has to be written (L5); connections are '
             'thread-local and re-opened after fork (L6); value files are never overwritten in place (F1) and a '
             'reader outside the lock treats a vanished file as a miss (V1a).',
             'Linearizability itself (all interleavings under the real SQLite lock manager) is model-checking '
             'territory and is assumed from A2 given the discipline above.'),
    'C06': P(['T2', 'T3', 'T5b', 'T6', 'F5b'],
             'protocol check of the transaction manager over enumerated paths (begin flag correlated)',
             'Decides that only the outermost block commits/rolls back, only the owner thread joins, any exception '
             'rolls back and propagates, the public wrappers yield inside the block; and that no file is removed '
             'while an enclosing transaction can still roll back (T5b, F5b).',
             'Visibility to concurrent clients (WAL snapshot semantics) is assumed (A2).'),
    'C07': P(['T3', 'T5a', 'F2', 'F4', 'F5a', 'K5', 'P3'],
             'ordering (must-precede) rules over enumerated paths',
             'Decides the ordering rules that make a kill harmless: the value file is complete and closed before the '
             'row naming it is written (F2, K5), a replaced/removed file is deleted only after the COMMIT of its own '
             'transaction and never inside the block (T5a, F4, F5a), the manager never leaves a transaction open (T3), '
             'journal mode default is WAL with synchronous != OFF (P3).',
             'SIGKILL inside SQLite and page-cache behaviour are trusted (A2).'),
}

PROPS = {}
for _pid, _spec in _ALL.items():
    PROPS[_pid] = _spec


def missing_rules():
    out = {}
    for pid, spec in PROPS.items():
        m = [r for r in spec['rules'] if r not in RULES]
        if m:
            out[pid] = m
    return out
