"""Property -> rules table (DESIGN §5).  Importing this module registers all rules."""
from . import rules_txn  # noqa: F401

_OPTIONAL = ['rules_lock', 'rules_file', 'rules_codec', 'rules_expiry', 'rules_evict', 'rules_queue', 'rules_shard',
             'rules_retry', 'rules_api', 'rules_memo', 'rules_check', 'rules_persist', 'rules_django', 'rules_recipes', 'rules_state']
import importlib
for _m in _OPTIONAL:
    try:
        importlib.import_module('sa.' + _m)
    except ModuleNotFoundError as e:
        if e.name != 'sa.' + _m:
            raise

from .framework import RULES


def P(rules, technique, explanation, not_decided):
    return {'rules': rules, 'technique': technique, 'explanation': explanation, 'not_decided': not_decided}


_ALL = {
    'C01': P(['K1', 'K2', 'K3', 'K4', 'K5', 'K7', 'F1', 'F2', 'F7', 'L7'],
             'codec table agreement per storage mode + SQL column binding dataflow over enumerated paths',
             'Decides structural necessary conditions of the round trip: every mode written by Disk.store is dispatched '
             'by Disk.fetch and returns on all paths (K1); writer and reader recipes agree per mode - inline/file '
             'discriminator, open mode, codec, newline handling, strict errors, read to EOF (K2); floats stored natively '
             'exclude NaN (K3); key codec and JSONDisk wrap both directions symmetrically (K4); every fetch receives '
             'mode/filename/value of one SELECT and every store result reaches the row writer in column order (K5); '
             'value files are created exclusively and written completely (F1, F2, F7); only core touches storage (L7).',
             'Equality over the value domain itself (pickle/SQLite/JSON fidelity, size-threshold arithmetic) quantifies '
             'over runtime values and is not decided.'),
    'C02': P(['K4', 'K5', 'K6', 'K7', 'X3'],
             'key codec table agreement + (key, raw) parameter binding dataflow + keyset pagination check',
             'Decides that Disk.put/Disk.get invert each other per raw flag by exact type dispatch with the int64 guard '
             '(K4); every key lookup filters on key = ? AND raw = ? fed by the two results of one Disk.put of the '
             'method\'s key (K6); iteration decodes key and raw of one row (K5) and pages on the unique (key, raw) or '
             'rowid cursor (X3).',
             'SQLite comparison/affinity semantics for 1 vs 1.0 and pickle canonicity of equal composite keys are '
             'runtime-value questions and are not decided.'),
    'C03': P(['E2', 'L5', 'L8', 'L9', 'X3', 'E4', 'B1', 'B2', 'B3'],
             'who-may-delete classification with guard dominance over enumerated paths',
             'Decides the clause "nothing is ever removed except by an explicit removal call, by expiry, or by size '
             'eviction at the limit": every DELETE on Cache is classified and its guard verified (E2); statistics are '
             'counted exactly once per transactional get and the lock-free path is taken only when nothing must be '
             'counted (L5, L8); bulk removal/iteration paging is sound and bulk removals report what they removed '
             '(X3, E4).',
             'Equivalence with a reference dictionary over all call histories needs execution and is not decided.'),
    'C04': P(['X1', 'X2', 'X3', 'X4', ('E2', r'expired|lazy|expire'), 'E3', ('L9', r'Cache\.(incr|add|touch)/'), 'E8'],
             'finite order abstraction {NULL,<,=,>} over every expiry comparison (SQL 3-valued + Python), sibling agreement',
             'Decides that every comparison of an expiry time with the clock - in SQL or Python - implements one '
             'liveness predicate (live iff NULL or > now) and every removal predicate selects only non-live items and '
             'all items with expire_time < now (X1); ttl conversion is NULL iff expire is None else now+expire (X2); '
             'expire() pages soundly through any population (X3); lazy removal is expiry-guarded and budgeted (E2, E3).',
             'Clock trajectories x populations beyond the order abstraction (float rounding of now + expire) are not '
             'decided.'),
    'C05': P(['T1', 'T2', 'T3', 'L1', 'L2', 'L9', 'L5', 'L6', 'L7', 'F1', 'V1a', 'K5', 'K7', 'B7'],
             'lock-discipline analysis over enumerated paths with transaction context',
             'Decides that the transaction manager takes the write lock at BEGIN, admits only the owner thread to nest '
             'and commits xor rolls back on every path (T1-T3); every row write executes inside a transaction block '
             '(L1); every read-modify-write has its SELECT in the same block instance as the write it drives (L2); the '
             'lock-free get path is taken only when nothing has to be written (L5); connections are thread-local and '
             're-opened after fork (L6); value files are never overwritten in place (F1), a reader outside the lock '
             'treats a vanished file as a miss (V1a) and one SELECT supplies mode+filename+value (K5).',
             'Linearizability itself (all interleavings under the real SQLite lock manager) is model-checking '
             'territory; it is assumed from A2 given the discipline above.'),
    'C06': P(['T2', 'T3', 'T5b', 'T6', 'F5b'],
             'protocol check of the transaction manager over enumerated paths (begin flag correlated)',
             'Decides that only the outermost block commits/rolls back, only the owner thread joins, any exception '
             'rolls back and propagates, the public wrappers (Cache/Fanout/Deque/Index.transact) yield inside the '
             'block and lock every shard; and that no file is removed while an enclosing transaction can still roll '
             'back (T5b, F5b - violated on the pinned tree, see known findings).',
             'Visibility to concurrent clients (WAL snapshot semantics) is assumed (A2).'),
    'C07': P(['T3', 'T5a', 'F2', 'F4', 'F5a', 'K5', 'P3'],
             'ordering (must-precede) rules over enumerated paths',
             'Decides the ordering rules that make a kill harmless: the value file is complete and closed before the '
             'row naming it is written (F2, K5), a replaced/removed file is deleted only after the COMMIT of its own '
             'transaction and never inside the block (T5a, F4, F5a), the manager never leaves a transaction open (T3), '
             'journal mode default is WAL with synchronous != OFF (P3).',
             'SIGKILL inside SQLite and page-cache behaviour are trusted (A2).'),
    'C08': P(['F3', 'F4', 'F6', 'F7', 'F8', 'F9', 'F10', 'P7'],
             'typestate of the new value file over all exits (normal, Timeout, exception) + trigger table check',
             'Decides that a freshly written value file is referenced by a committed row or released on every exit '
             '(F3), every overwrite/delete releases the old file (F4), the rows whose files are released are exactly '
             'the rows deleted (F6), recorded sizes are byte counts (F7), removal tolerates races (F8), a failed '
             'write leaves no partial file (F9) and count/size are maintained by triggers for every row event and '
             'assigned nowhere else (F10).',
             'Counter values under real concurrency rely on SQLite trigger atomicity (A2).'),
    'C09': P(['E1', 'E2', 'E3', 'E4', 'E5', 'E6', 'S5', 'E7', 'E8'],
             'policy table coherence + guard dominance with order abstraction {<,=,>} on volume vs size_limit',
             'Decides that each policy culls ascending by the column its get-update refreshes and its index covers, '
             'policy none has no cull statement (E1); size eviction is dominated by volume >= size_limit in writes and '
             'exactly volume > size_limit in cull() (E2); one write removes at most cull_limit rows, none when 0 (E3); '
             'cull() and the bulk removals return everything they removed (E4); get/incr refresh recency in the same '
             'block (E5); Deque/Index use policy none (E6); the limit is divided among shards (S5).',
             'Which concrete items survive a given history needs execution and is not decided.'),
    'C10': P(['Q1', 'Q2', 'Q3', ('B2', r'Cache\.(pull|peek)/'), ('L2', r'Cache\.(push|pull|peek)/'), ('F4', r'Cache\.(pull|peek)/'),
              ('X1', r'Cache\.(pull|peek)/'), ('S6', r'persistent\.(Deque|Index)\.')],
             'sibling agreement of push/pull/peek (constant-folded key ranges, order maps) + lock discipline',
             'Decides that push, pull and peek build the same open key range, pin raw, map sides to orders '
             'consistently, insert the neighbour key with the 15-digit text form inside the bounds (Q1); that a '
             'prefixed range is shaped to prefix-<15 digits> only (Q2 - violated, known finding); that select and '
             'insert/delete of the head share one transaction block (L2), the pulled file is released after commit '
             '(F4), expired heads use the common liveness predicate (X1); Deque/Index delegate positionally right (S6).',
             'Delivery order/exactly-once over interleavings follows from the block discipline only under A2.'),
    'C11': P(['E6', 'I3', 'I4', ('B7', r'persistent'), ('I2', r'^(Deque|no-store)'), ('I1', r'^Deque\.'), ('L3', r'Deque\.'), ('R2', r'^Deque\.'), 'R3', ('P1', r'Deque'), ('S6', r'persistent\.Deque\.')],
             'structural necessary conditions: policy none, append+trim in one retrying block, Timeout containment, state tuple',
             'Does NOT decide equivalence with collections.deque. Decides: a Deque never evicts or expires (E6); '
             'append/appendleft push, measure and trim the opposite side inside one retrying transaction, as does the '
             'maxlen setter (L3); no Deque method lets Timeout escape (R2, R3); the pickled state (directory, maxlen) '
             'matches the constructor (P1); delegation passes arguments in the right positions (S6).',
             'Equivalence with collections.deque over operation sequences needs execution and is not decided.'),
    'C12': P(['E6', ('B7', r'persistent'), ('I2', r'^(Index|no-store)'), ('I1', r'^Index\.'), ('L3', r'Index\.'), ('R2', r'^Index\.'), 'R3', ('P1', r'Index'), 'V1b',
              ('S6', r'persistent\.Index\.')],
             'structural necessary conditions + call-path check of the lookup (vanished value file)',
             'Does NOT decide equivalence with OrderedDict. Decides: an Index never evicts or expires (E6); popitem '
             'peeks and deletes in one retrying block and setdefault stores through the atomic add (L3); no Index '
             'method lets Timeout escape (R2, R3); state matches the constructor (P1); the lookup path must not turn a '
             'vanished (replaced) value file into "key absent" (V1b - violated, known finding).',
             'Equivalence with OrderedDict over histories needs execution and is not decided.'),
    'C13': P(['S1', 'S2', 'S3', 'S4', 'S5', 'S6', 'S7', ('S8', r'^FanoutCache'), 'P3', ('I2', r'^(FanoutCache|no-store)')],
             'routing dataflow per method + purity allow-list of the hash + aggregate iteration shape',
             'Decides that every key-addressed FanoutCache method calls shards[hash(key) % count] with the key it '
             'hashed (S1); Disk.hash is a pure function of the database form of the key (S2) and respects database '
             'equality (S3 - violated for 1 vs 1.0, known finding); aggregates visit every shard exactly once and '
             'combine all results (S4); the limit is divided (S5); arguments are passed in the right positions (S6); '
             'hash recipe and shard directory names equal the released format (P3).',
             'Per-call equivalence with the unsharded cache over histories needs execution and is not decided.'),
    'C14': P(['T4', ('F3', r'timeout-exit'), 'R1', 'R2', 'R3', 'R4', 'R5', ('D7', r'timeout'), ('E4', r'timeout-carries-count'),
              ('L6', r'init-leaves|connect-autocommit')],
             'may-raise-Timeout fixpoint over the resolved call graph + busy-path protocol of the manager',
             'Decides that a busy BEGIN either loops (retry) or releases the caller\'s new file and raises Timeout with '
             'nothing else executed (T4, F3 timeout exit); retry is forwarded to every transaction entry and callee '
             '(R1 - cull->expire violated, known finding); no FanoutCache/DjangoCache/Deque/Index/recipe data operation '
             'lets Timeout escape and the sharded failure values are False/None/default (R2); operator forms and Django '
             'writes wait (R3); read-only operations never take the lock (R4); bulk removals carry their count (E4).',
             '"Waits and then succeeds" timing is not decided.'),
    'C15': P([('L3', r'Lock|RLock|BoundedSemaphore'), 'L4', 'O0', 'O1', 'O2', 'O3', ('O5', r'Lock|RLock|BoundedSemaphore'),
              ('L2', r'Cache\.(add|__delitem__)/')],
             'transaction-block containment of each read-modify-write + order abstraction on the counters',
             'Decides that Lock spins on the atomic add and leaves only on success; RLock and BoundedSemaphore read, '
             'decide and write inside one retrying block (L3); nothing sleeps while the lock is held (L4); the '
             'semaphore proceeds only for value > 0 and releases only below the initial value (O0); the RLock owner '
             'identity is pid+tid on both sides and release asserts ownership (O1, O2); context-manager forms and '
             'barrier use acquire/release (O3); add/delete underneath are atomic (L2).',
             'Mutual exclusion over all interleavings follows from these only under A2; it is not model-checked here.'),
    'C16': P(['M1', 'M2', 'M3', 'M4', 'M5', 'D5', ('O5', r'memoize_stampede'), ('S8', r'memoize'), ('B2', r'Cache\.get/'), ('S6', r'memoize')],
             'concatenation-grammar reading of the key builder + wrapper dataflow (same key looked up and stored)',
             'Decides that the key builder separates positional from keyword segments by a delimiter no argument value '
             'can equal (M1 - violated: the delimiter is None, known finding); typed/ignore are applied to every kept '
             'value (M2); each wrapper looks up with the ENOVAL sentinel, calls through with the same arguments once, '
             'returns the cached value or this call\'s result, stores under the same key, and stores nothing for a '
             'zero expiry (M3); Index/Fanout memoize delegate correctly (S6).',
             'Results of arbitrary user functions are not decided.'),
    'C17': P(['H1', 'H2', 'H3', 'H4', ('S4', r'check'), ('S6', r'FanoutCache\.check'), 'H5', 'H6'],
             'guard dominance over enumerated paths of check()',
             'Decides that every write/removal/VACUUM in check() is dominated by `fix` (H1); every repair is preceded '
             'by a warning issued under the same condition and no warning depends on fix (H2); directory pruning reaches '
             'a fixpoint in one pass (H3 - violated, known finding); all comparisons run in one transaction (H4); '
             'FanoutCache.check covers every shard (S4, S6).',
             'Convergence for arbitrary damage combinations beyond these structural conditions is not decided.'),
    'C18': P(['P1', 'P2', 'P3', 'P4', 'P5', 'P6', 'P7', 'B5', 'B6', 'L6', ('I2', r'^(Cache|Disk|JSONDisk|no-store)')],
             'constant folding of the on-disk format against a pinned reference + state-tuple/constructor agreement',
             'Decides that pickled state matches the constructor for Cache/FanoutCache/Deque/Index (P1); settings are '
             'layered defaults < stored < arguments and counters inserted with OR IGNORE (P2); every on-disk format fact '
             '(file names, modes, schema, shard directories, queue keys, hash recipe, key pickling, codecs) equals the '
             'released 5.6.3 reference (P3); a tested parameter is used (P4); connections are per thread and re-opened '
             'after fork/close (L6).',
             'Byte-level readability of pickles across Python versions is not decided.'),
    'C19': P(['D1', 'D2', 'D3', 'D4', 'D5', 'D6', 'D7', ('S8', r'^DjangoCache'), ('I2', r'^(DjangoCache|no-store)'), ('S6', r'djangocache'), ('R2', r'DjangoCache'), 'R3'],
             'key/timeout dataflow through the adapter + abstract evaluation of get_backend_timeout on 5 input classes',
             'Does NOT decide the full backend contract over histories. Decides: every key goes downstream as '
             'make_key(key, version=version) (D1); every timeout goes through get_backend_timeout, which maps the '
             'default marker, None and 0 correctly (D2); incr raises ValueError for a missing key, decr negates (D3); '
             'arguments are passed in the right positions (S6); no data method lets Timeout escape (R2, R3).',
             'The Django contract over call histories (versions x timeouts under a clock) needs execution.'),
    'C20': P([('L3', r'Averager|throttle'), 'L4', 'O4', ('O5', r'Averager|throttle'), 'O6'],
             'transaction-block containment + branch-shape check of the token bucket',
             'Does NOT decide the numeric rate bound. Decides: Averager.add reads and writes inside one retrying block '
             'and pop is one atomic pop (L3); the throttle spends exactly one token inside the block or computes a '
             'delay, is capped at count, refills by elapsed*rate, and sleeps outside the block (O4, L4).',
             'The numeric rate bound and fairness are arithmetic over time and are not decided.'),
}

# clauses decided by rules that were added during the build (appended to the explanations above)
_EXTRA = {
    'C03': ' Also: no foreign DELETE runs between reading a rowid and the write that uses it (L9); every mutating method '
           'reports what it did, result tuples come from one row in the requested shape, iteration is primed at call '
           'time and sentinel lookups raise KeyError (B1-B3).',
    'C04': ' Also: liveness is decided with a clock read after the lock was obtained (X4 - violated in touch/add/incr, '
           'known finding C04-F3); the lazy removal cannot delete the row an operation is about to rewrite (L9).',
    'C05': ' Also: row identity (L9) and re-entrancy of the shared Disk object (K7).',
    'C10': ' Also: pull/peek results are (key, value) of the selected row in the requested shape (B2); the counter of '
           'a prefixed key is never cut out with character-set stripping (Q3).',
    'C13': ' Also: named sub-containers have one handle per name, created only when the name is absent (S7); no '
           'class-level mutable containers and no stores on class objects (I2); the three kinds are memoised under '
           'distinct entries and a caller-supplied name reaches os.path.join only as pieces that cannot be absolute '
           '(S7); __contains__ applies `in` to the hashed shard (S1); every attempt of the bulk-removal loop is counted '
           'exactly once, followed over two shards (S4).',
    'C11': ' Also: append/appendleft keep the length at min(n + 1, maxlen) for every maxlen including 0, decided on a '
           'finite (maxlen, length) abstraction of the enumerated paths (I3); the rich comparisons have sequence '
           'semantics and each is built from its own operator (I4). Each method delegates to the right primitive with the right side/sentinel/retry constants and '
           'rotate re-inserts exactly what it popped (I1, L3). No iterator of the package stays suspended inside a '
           'transaction or an open cursor (B7).',
    'C12': ' Also: the delegation table and the sentinel-based equality hold (I1, L3); alternate constructors set the '
           'instance fields __init__ sets, nothing is stored on the class (I2); an update() that takes keyword items '
           'names no other keyword-capturable parameter, setdefault cannot raise KeyError and a stored None is never '
           'taken for a missing key (I1); no iterator stays suspended inside a transaction or an '
           'open cursor (B7).',
    'C16': ' Also: decorator factories keep no state between decorated functions (M4); the lookup result shape survives '
           'the vanished-file path that memoize_stampede unpacks (B2); the wrapper\'s __cache_key__ is assigned after '
           'the metadata copy of functools.wraps/update_wrapper (M5); one-shot iterators in args_to_key are consumed once '
           '(M1); the stampede refresh marker key ends in a module sentinel (M3).',
    'C17': ' Also: every warning about a repairable inconsistency is followed by its repair under fix (H5); both directory scans run on every path and compare os.path.join-ed paths (H4).',
    'C18': ' Also: setting prefixes are stripped exactly and reset() writes through to the Settings table (B5, B6); '
           'connections are opened in autocommit mode with the object\'s timeout (L6); statements name only '
           'tables and indexes that __init__ creates unconditionally and nothing drops (P5); a FanoutCache passes its '
           'shards only caller-supplied settings (P6 - violated for size_limit, known finding); tables, the unique '
           'key index and the counter triggers are created on every path of __init__ (P7); JSONDisk renders JSON with '
           'the default text options, the text being the database key (P3).',
    'C19': ' Also: every method performs exactly one downstream operation on every return path (D4); the memoize key '
           'hook stays user-level and the wrapper goes through the adapter methods (D5); the constructor does not '
           'mutate the configuration mapping shared by all backend instances (D6); no class-level mutable state (I2).',
}
PROPS = {}
for _pid, _spec in _ALL.items():
    if _pid in _EXTRA:
        _spec = dict(_spec)
        _spec['explanation'] = _spec['explanation'] + _EXTRA[_pid]
    PROPS[_pid] = _spec


def missing_rules():
    out = {}
    for pid, spec in PROPS.items():
        m = [r for r in spec['rules'] if (r if isinstance(r, str) else r[0]) not in RULES]
        if m:
            out[pid] = m
    return out
