"""B and I rules: return-value tables, result shapes, iteration priming,
prefix constants, and the delegation table of the persistent containers.

These are structural pieces of the "behaves like a dictionary / deque /
ordered dict" properties (C03, C11, C12): they do NOT decide the equivalence,
they decide that each method reports what it did and delegates to the right
primitive with the right constants."""
import ast

from .framework import rule, Ob, fmt_trace, sql_events, call_events, values_in, deep_values, real_call
from .model import AnalysisError, walk_shallow, dotted
from .values import V, C
from .rules_lock import _is_row_write


def _flag(p, name):
    """Truthiness assumed for boolean parameter `name` on this path (None = not tested)."""
    v = V('param', name, 'core')
    return p.st.facts.get(('truthy', v))


def _row_writes(trace, kinds=('insert', 'update', 'delete')):
    return [e for e in trace if e.kind == 'SQL' and e.d['stmt'] is not None and e.d['stmt'].kind in kinds
            and (e.d['stmt'].table or '').lower() == 'cache']


@rule('B1', floor=8, title='each mutating method reports what it did: True/False/KeyError/the value it wrote')
def b1(ctx):
    obs = []
    # ---- set: returns True after the row write
    f = ctx.method('Cache', 'set')
    ok, n, wit = True, 0, None
    for p in ctx.paths(f, 'default'):
        if p.kind != 'return':
            continue
        n += 1
        wrote = any(e.d['stmt'].kind in ('insert', 'update') for e in _row_writes(p.trace))
        if not (p.outcome[1].is_const and p.outcome[1].val is True and wrote):
            ok, wit = False, fmt_trace(p.trace)
    obs.append(Ob('B1', 'Cache.set/true-after-write', ok and n > 0, 'set returns without having written the row, or '
                  'does not return True', f.loc(), wit))
    # ---- add: True iff it stored
    f = ctx.method('Cache', 'add')
    ok, n, wit = True, 0, None
    for p in ctx.paths(f, 'default'):
        if p.kind != 'return':
            continue
        n += 1
        wrote = any(e.d['stmt'].kind in ('insert', 'update') for e in _row_writes(p.trace))
        rv = p.outcome[1]
        if not (rv.is_const and rv.val is wrote):
            ok, wit = False, fmt_trace(p.trace)
    obs.append(Ob('B1', 'Cache.add/true-iff-stored', ok and n > 0, 'add does not return True exactly when it stored the '
                  'item (concurrent adders rely on exactly one True)', f.loc(), wit))
    # ---- touch: True iff it updated
    f = ctx.method('Cache', 'touch')
    ok, n, wit = True, 0, None
    for p in ctx.paths(f, 'default'):
        if p.kind != 'return':
            continue
        n += 1
        wrote = bool(_row_writes(p.trace, ('update',)))
        rv = p.outcome[1]
        if not (rv.is_const and rv.val is wrote):
            ok, wit = False, fmt_trace(p.trace)
    obs.append(Ob('B1', 'Cache.touch/true-iff-updated', ok and n > 0, 'touch does not return True exactly when it '
                  'updated a live item', f.loc(), wit))
    # ---- __delitem__: KeyError iff nothing deleted, True otherwise
    f = ctx.method('Cache', '__delitem__')
    ok, n, wit = True, 0, None
    for p in ctx.paths(f, 'plain'):
        if p.kind == 'cut' or (p.kind == 'raise' and p.raised() == 'Timeout'):
            continue
        n += 1
        deleted = bool(_row_writes(p.trace, ('delete',)))
        if p.kind == 'raise':
            good = p.raised() == 'KeyError' and not deleted
        else:
            good = deleted and p.kind == 'return' and p.outcome[1].is_const and p.outcome[1].val is True
        if not good:
            ok, wit = False, fmt_trace(p.trace)
    obs.append(Ob('B1', 'Cache.__delitem__/keyerror-iff-absent', ok and n > 0, '__delitem__ must delete and return True, '
                  'or raise KeyError without deleting', f.loc(), wit))
    # ---- delete: False on KeyError, else the result of __delitem__
    f = ctx.method('Cache', 'delete')
    ok, n, wit = True, 0, None
    for p in ctx.paths(f, 'default'):
        if p.kind != 'return':
            continue
        n += 1
        caught = any(e.kind in ('CATCH', 'SUPPRESSED') and e.d['typ'] == 'KeyError' for e in p.trace)
        rv = p.outcome[1]
        good = (caught and rv.is_const and rv.val is False) or \
            (not caught and rv.k == 'ret' and any(q.endswith('__delitem__') for q in rv.a[1]))
        if not good:
            ok, wit = False, fmt_trace(p.trace)
    obs.append(Ob('B1', 'Cache.delete/false-when-absent', ok and n > 0, 'delete must return False for a missing key and '
                  'the result of the deletion otherwise', f.loc(), wit))
    # ---- incr: returns the value it wrote
    f = ctx.method('Cache', 'incr')
    ok, n, wit = True, 0, None
    for p in ctx.paths(f, 'plain'):
        if p.kind != 'return':
            continue
        n += 1
        rv = p.outcome[1]
        written = None
        for e in p.trace:
            if e.kind == 'SQL' and e.d['stmt'] is not None and e.d['stmt'].kind == 'update' and \
                    'value' in [c for c, _ in e.d['stmt'].assigns] and 'filename' not in [c for c, _ in e.d['stmt'].assigns]:
                for sl, pv in zip(e.d['stmt'].slots(), e.d['params'] or []):
                    if sl[0] == 'assign' and sl[1] == 'value':
                        written = pv
            if e.kind == 'CALL' and any(t.qual.endswith('Disk.store') for t in e.d['targets']):
                written = e.d['args'][0]
        if written is None or rv != written:
            ok, wit = False, fmt_trace(p.trace)
        # the new value is old + delta (live) or default + delta (created)
        if rv.k == 'term' and rv.a[0] == 'Add':
            a, b = rv.a[1]
            if not (b.k == 'param' and b.a[0] == 'delta' and (a.k == 'col' and a.a[1] == 'value'
                                                               or a.k == 'param' and a.a[0] == 'default')):
                ok, wit = False, fmt_trace(p.trace)
        else:
            ok, wit = False, fmt_trace(p.trace)
    obs.append(Ob('B1', 'Cache.incr/returns-written-value', ok and n > 0, 'incr does not return exactly the value it '
                  'stored (stored value + delta, or default + delta for a missing/expired key)', f.loc(), wit))
    # ---- decr = incr(-delta)
    f = ctx.method('Cache', 'decr')
    ok = False
    for p in ctx.paths(f, 'plain'):
        for e in p.trace:
            if e.kind == 'CALL' and e.d['name'] == 'incr':
                t = e.d['targets'][0]
                i = t.params.index('delta')
                a = e.d['args']
                dv = e.d['kwargs'].get('delta') or (a[i] if i < len(a) else None)
                ok = dv is not None and dv.k == 'term' and dv.a[0] == 'neg' and dv.a[1][0].k == 'param' \
                    and dv.a[1][0].a[0] == 'delta' and p.kind == 'return' and p.outcome[1].k == 'ret'
    obs.append(Ob('B1', 'Cache.decr/negated-incr', ok, 'decr must return incr(key, -delta, default, retry)', f.loc()))
    # ---- KeyError for a missing key with default=None in incr
    f = ctx.method('Cache', 'incr')
    ok, n = True, 0
    for p in ctx.paths(f, 'plain'):
        if p.kind == 'raise' and p.raised() == 'KeyError':
            n += 1
            d = V('param', 'default', 'core')
            if p.st.facts.get(('none', d)) is not True or _row_writes(p.trace):
                ok = False
    obs.append(Ob('B1', 'Cache.incr/keyerror-only-without-default', ok and n >= 2, 'incr must raise KeyError exactly for '
                  'a missing or expired key with default=None, before writing anything', f.loc()))
    return obs


SHAPED = ('get', 'pop', 'pull', 'peek', 'peekitem')


@rule('B2', floor=5, title='result shapes: (value[, expire_time][, tag]) come from one row; misses return the padded default')
def b2(ctx):
    obs = []
    for name in SHAPED:
        f = ctx.method('Cache', name)
        ok, why, wit = True, '', None
        nhit = nmiss = 0
        for p in ctx.paths(f, 'default'):
            if p.kind != 'return':
                continue
            et, tg = _flag(p, 'expire_time'), _flag(p, 'tag')
            if name == 'peekitem' and et is None and tg is None and False:
                continue
            rv = p.outcome[1]
            fetches = [e for e in p.trace if e.kind == 'CALL' and any(t.qual.endswith('Disk.fetch') for t in e.d['targets'])]
            completed = [e for e in fetches if not (e.seq + 1 < len(p.trace) and p.trace[e.seq + 1].kind == 'RAISE'
                                                    and p.trace[e.seq + 1].d.get('call') == e.seq)]
            want_n = 1 + (1 if et else 0) + (1 if tg else 0)
            if (completed or name != 'peekitem') and (et is None or tg is None):
                ok, why, wit = False, 'the shape of the result is chosen without looking at both the expire_time and ' \
                                      'the tag flag', fmt_trace(p.trace)
                continue
            if completed:
                nhit += 1
                fe = completed[-1]
                sel = fe.d['args'][0].a[0] if fe.d['args'] and fe.d['args'][0].k == 'col' else None
                fv = V('ret', fe.seq, tuple(sorted(t.qual for t in fe.d['targets'])))
                parts = list(rv.a[0]) if rv.k == 'tuple' and want_n > 1 else [rv]
                if len(parts) != want_n:
                    ok, why, wit = False, 'result has %d parts, flags ask for %d' % (len(parts), want_n), fmt_trace(p.trace)
                    continue
                val = parts[0]
                if name in ('get', 'pop'):
                    good = val == fv
                else:
                    good = val.k == 'tuple' and len(val.a[0]) == 2 and val.a[0][1] == fv
                    if good:
                        k = val.a[0][0]
                        if name == 'peekitem':
                            good = k.k == 'ret' and any(q.endswith('Disk.get') for q in k.a[1])
                        else:
                            good = k.k == 'col' and k.a[1] == 'key' and k.a[0] == sel
                if not good:
                    ok, why, wit = False, 'the value part is not the value fetched for the selected row', fmt_trace(p.trace)
                rest = parts[1:]
                wantcols = (['expire_time'] if et else []) + (['tag'] if tg else [])
                for r, c in zip(rest, wantcols):
                    if not (r.k == 'col' and r.a[1] == c and r.a[0] == sel):
                        ok, why, wit = False, 'part %s is not the %s column of the row whose value is returned' % (r, c), fmt_trace(p.trace)
            else:
                if name == 'peekitem':
                    continue
                nmiss += 1
                d = V('param', 'default', 'core')
                if want_n == 1:
                    good = rv == d
                else:
                    good = rv.k == 'tuple' and len(rv.a[0]) == want_n and rv.a[0][0] == d and all(
                        x.is_const and x.val is None for x in rv.a[0][1:])
                if not good:
                    ok, why, wit = False, 'a miss does not return the caller\'s default padded with None to the ' \
                                          'requested shape', fmt_trace(p.trace)
        obs.append(Ob('B2', 'Cache.%s/result-shape' % name, ok and nhit > 0 and (nmiss > 0 or name == 'peekitem'),
                      why or 'no hit/miss path found', f.loc(), wit))
    return obs


@rule('B3', floor=4, title='iteration: __iter__/__reversed__ prime the snapshot generator; read/__getitem__ raise KeyError on the sentinel')
def b3(ctx):
    obs = []
    for name, asc in (('__iter__', True), ('__reversed__', False)):
        f = ctx.method('Cache', name)
        ok = False
        for p in ctx.paths(f, 'plain'):
            calls = [e for e in p.trace if e.kind == 'CALL' and e.d['targets'][0] is _iter_helper(ctx)]
            if len(calls) != 1:
                continue
            c = calls[0]
            a = c.d['kwargs'].get('ascending') or (c.d['args'][0] if c.d['args'] else None)
            asc_ok = (a is None and asc) or (a is not None and a.is_const and a.val is asc)
            gen = V('ret', c.seq, tuple(sorted(t.qual for t in c.d['targets'])))
            # next(iterator) exactly once, then return the same iterator
            nexts = [e for e in p.trace if e.kind == 'EXT' and e.d['name'] == 'builtins.next'] if False else None
            ok = asc_ok and p.kind == 'return' and p.outcome[1] == gen
        src = ast.unparse(f.node)
        primed = src.count('next(') == 1
        obs.append(Ob('B3', 'Cache.%s/primed-%s' % (name, 'ascending' if asc else 'descending'), ok and primed,
                      '%s must create _iter(ascending=%s), advance it once (so the row-id snapshot is taken at call '
                      'time) and return it' % (name, asc), f.loc()))
    g = _iter_helper(ctx)
    ok, n = True, 0
    for p in ctx.paths(g, 'plain'):
        ys = [e for e in p.trace if e.kind == 'YIELD']
        if not ys:
            continue
        n += 1
        first = ys[0]
        before = [e for e in p.trace[:first.seq] if e.kind == 'SQL']
        if not (before and before[0].d['stmt'] is not None and any('MAX' in c.upper() for c in before[0].d['stmt'].colnames)):
            ok = False
        if first.d['value'] is not None and not (first.d['value'].is_const and first.d['value'].val is None):
            ok = False
    obs.append(Ob('B3', 'Cache._iter/snapshot-then-signal', ok and n > 0, 'the iterator must read MAX(rowid) first and '
                  'then yield its ready signal before producing keys: rows added later are not iterated', g.loc()))
    for cls, name, extra in (('Cache', '__getitem__', {}), ('Cache', 'read', {'read': True}), ('FanoutCache', 'read', {'read': True})):
        f = ctx.method(cls, name)
        ok, n = True, 0
        for p in ctx.paths(f, 'plain'):
            gets = [e for e in p.trace if e.kind == 'CALL' and e.d['name'] == 'get']
            if len(gets) != 1:
                ok = False
                continue
            ge = gets[0]
            n += 1
            d = ge.d['kwargs'].get('default')
            if not (d is not None and d.k == 'modconst' and d.a[1] == 'ENOVAL'):
                ok = False
            for k, v in extra.items():
                x = ge.d['kwargs'].get(k)
                if not (x is not None and x.is_const and x.val is v):
                    ok = False
            gv = V('ret', ge.seq, tuple(sorted(t.qual for t in ge.d['targets'])))
            sentinel = p.st.facts.get(('eq', frozenset((gv, V('modconst', 'core', 'ENOVAL')))))
            if p.kind == 'raise':
                if not (p.raised() == 'KeyError' and sentinel is True):
                    ok = False
            elif p.kind == 'return':
                if not (p.outcome[1] == gv and sentinel is False):
                    ok = False
        obs.append(Ob('B3', '%s.%s/keyerror-on-sentinel' % (cls, name), ok and n >= 2,
                      '%s.%s must look up with default=ENOVAL and raise KeyError exactly when the sentinel comes back'
                      % (cls, name), f.loc()))
    return obs


@rule('B5', floor=3, title='setting-name prefixes: key[n:] strips exactly the prefix tested with startswith')
def b5(ctx):
    obs = []

    def lit(node, consts):
        if isinstance(node, ast.Constant) and isinstance(node.value, str):
            return node.value
        if isinstance(node, ast.Name) and node.id in consts:
            return consts[node.id]
        return None

    def fold_int(node, consts):
        if isinstance(node, ast.Constant) and isinstance(node.value, int):
            return node.value
        if isinstance(node, ast.Call) and isinstance(node.func, ast.Name) and node.func.id == 'len' and len(node.args) == 1:
            v = lit(node.args[0], consts)
            return len(v) if v is not None else None
        if isinstance(node, ast.Name) and isinstance(consts.get(node.id), int):
            return consts[node.id]
        return None
    mod_consts = {}
    for name, expr in ctx.prog.modules['core'].consts.items():
        try:
            v = ctx.fold(expr, 'core')
        except ValueError:
            continue
        if isinstance(v, (str, int)) and not isinstance(v, bool):
            mod_consts[name] = v
    for f in ctx.prog.all_funcs():
        if f.module != 'core':
            continue
        consts = dict(mod_consts)
        for n in walk_shallow(f.node):
            if isinstance(n, ast.Assign) and len(n.targets) == 1 and isinstance(n.targets[0], ast.Name):
                if isinstance(n.value, ast.Constant) and isinstance(n.value.value, (str, int)):
                    consts[n.targets[0].id] = n.value.value
        for n in walk_shallow(f.node):
            if isinstance(n, ast.Assign) and len(n.targets) == 1 and isinstance(n.targets[0], ast.Name):
                v = fold_int(n.value, consts)
                if v is not None and not isinstance(n.value, ast.Constant):
                    consts[n.targets[0].id] = v
        regions = []
        for n in ast.walk(f.node):
            if isinstance(n, ast.If):
                regions.append((n.test, n.body))
            if isinstance(n, (ast.DictComp, ast.ListComp, ast.GeneratorExp, ast.SetComp)):
                for g in n.generators:
                    for cond in g.ifs:
                        elts = [n.key, n.value] if isinstance(n, ast.DictComp) else [n.elt]
                        regions.append((cond, elts))
        for test, body in regions:
            if not (isinstance(test, ast.Call) and isinstance(test.func, ast.Attribute) and test.func.attr == 'startswith'
                    and test.args):
                continue
            prefix = lit(test.args[0], consts)
            if prefix is None:
                continue
            var = ast.unparse(test.func.value)
            for b in body:
                for m in ast.walk(b):
                    if isinstance(m, ast.Subscript) and ast.unparse(m.value) == var and isinstance(m.slice, ast.Slice) \
                            and m.slice.upper is None and m.slice.lower is not None:
                        n_ = fold_int(m.slice.lower, consts)
                        key = '%s/%s' % (f.qual, prefix)
                        i = 1
                        k2 = key
                        while any(o.key == k2 for o in obs):
                            i += 1
                            k2 = '%s#%d' % (key, i)
                        obs.append(Ob('B5', k2, n_ is None or n_ == len(prefix),
                                      'after `%s.startswith(%r)` the code strips %s characters: the PRAGMA / Disk '
                                      'attribute name is mangled, so the stored setting is never applied'
                                      % (var, prefix, n_), f.loc(m), nontrivial=n_ is not None))
    return obs


# ---------------------------------------------------------------------- I1
def _kw(ev, target, name):
    if name in ev.d['kwargs']:
        return ev.d['kwargs'][name]
    ps = target.params
    if name in ps:
        i = ps.index(name)
        if i < len(ev.d['args']):
            return ev.d['args'][i]
    return None


DELEGATION = [
    # (class, method, callee, {kw: expected}, raises on sentinel, returns)
    ('Deque', 'pop', 'pull', {'side': 'back', 'retry': True}, 'IndexError'),
    ('Deque', 'popleft', 'pull', {'side': ('front', None), 'retry': True}, 'IndexError'),
    ('Deque', 'peek', 'peek', {'side': 'back', 'retry': True}, 'IndexError'),
    ('Deque', 'peekleft', 'peek', {'side': ('front', None), 'retry': True}, 'IndexError'),
    ('Index', 'pop', 'pop', {'retry': True}, 'KeyError'),
]
SIMPLE = [
    ('Deque', 'clear', 'clear', {'retry': True}), ('Index', 'clear', 'clear', {'retry': True}),
    ('Index', 'peekitem', 'peekitem', {'retry': True, 'last': '=last'}),
    ('Index', 'push', 'push', {'retry': True, 'prefix': '=prefix', 'side': '=side', 'value': '=value'}),
    ('Index', 'pull', 'pull', {'retry': True, 'prefix': '=prefix', 'side': '=side', 'default': '=default'}),
    ('Index', '__len__', '__len__', {}), ('Deque', '__len__', '__len__', {}),
    ('Index', '__iter__', '__iter__', {}), ('Index', '__reversed__', '__reversed__', {}),
    ('Index', '__getitem__', '__getitem__', {}), ('Index', '__setitem__', '__setitem__', {}),
    ('Index', '__delitem__', '__delitem__', {}),
]


def _matches(v, want):
    if isinstance(want, tuple):
        return any(_matches(v, w) for w in want)
    if want is None:
        return v is None
    if v is None:
        return False
    if isinstance(want, str) and want.startswith('='):
        return v.k == 'param' and v.a[0] == want[1:]
    return v.is_const and v.val == want and type(v.val) is type(want)


def _closure_calls(ctx, fv, name):
    """`fv` is a local function all of whose normal paths call Cache.<name> with its own first parameter."""
    if fv.k != 'func' or fv.a[0] not in ctx.prog.funcs:
        return False
    g = ctx.prog.funcs[fv.a[0]]
    if not g.posparams:
        return False
    n = 0
    for p in ctx.paths(g, 'plain'):
        if p.kind not in ('return', 'next'):
            continue
        calls = [e for e in p.trace if e.kind == 'CALL' and e.d['targets'][0].cls == 'Cache'
                 and e.d['targets'][0].name == name and e.d['args'] and e.d['args'][0].k == 'param'
                 and e.d['args'][0].a[0] == g.posparams[0]]
        if not calls:
            return False
        n += 1
    return n > 0


@rule('I1', floor=20, title='persistent containers delegate to the right primitive with the right side/sentinel/retry constants')
def i1(ctx):
    obs = []
    for cls, meth, callee, kws, exc in DELEGATION:
        f = ctx.method(cls, meth)
        ok, why, n, nraise = True, '', 0, 0
        for p in ctx.paths(f, 'plain'):
            calls = [e for e in p.trace if real_call(e)]
            if len(calls) != 1 or calls[0].d['targets'][0].name != callee or calls[0].d['targets'][0].cls != 'Cache':
                ok, why = False, 'does not make exactly one call to Cache.%s' % callee
                continue
            c = calls[0]
            t = c.d['targets'][0]
            n += 1
            for k, want in kws.items():
                if not _matches(_kw(c, t, k), want):
                    ok, why = False, 'calls Cache.%s with %s=%r' % (callee, k, _kw(c, t, k))
            d = _kw(c, t, 'default')
            sentinel_ok = d is not None and any(x.k == 'modconst' and x.a[1] == 'ENOVAL' for x in values_in(d))
            if not sentinel_ok and d is not None and d.k == 'param':
                dd = f.defaults.get(d.a[0])
                sentinel_ok = isinstance(dd, ast.Name) and dd.id == 'ENOVAL'
            if not sentinel_ok:
                ok, why = False, 'does not pass the ENOVAL sentinel as (part of) the default'
            cv = V('ret', c.seq, tuple(sorted(x.qual for x in c.d['targets'])))
            if p.kind == 'raise':
                nraise += 1
                if p.raised() != exc:
                    ok, why = False, 'raises %s instead of %s for an empty container / missing key' % (p.raised(), exc)
            elif p.kind == 'return':
                rv = p.outcome[1]
                if cls == 'Deque':
                    if not (rv.k == 'field' and rv.a[0] == cv and rv.a[1] == 1):
                        ok, why = False, 'does not return the value part of the (key, value) pair'
                elif rv != cv:
                    ok, why = False, 'does not return the popped value'
        obs.append(Ob('I1', '%s.%s' % (cls, meth), ok and n >= 2 and nraise >= 1, '%s.%s %s' % (cls, meth, why or
                      'has no raising path for the empty case'), f.loc()))
    for cls, meth, callee, kws in SIMPLE:
        f = ctx.method(cls, meth)
        ok, why, n = True, '', 0
        for p in ctx.paths(f, 'plain'):
            calls = [e for e in p.trace if real_call(e)]
            if len(calls) != 1 or calls[0].d['targets'][0].name != callee or calls[0].d['targets'][0].cls != 'Cache':
                ok, why = False, 'does not make exactly one call to Cache.%s' % callee
                continue
            c = calls[0]
            t = c.d['targets'][0]
            n += 1
            for k, want in kws.items():
                if not _matches(_kw(c, t, k), want):
                    ok, why = False, 'calls Cache.%s with %s=%r' % (callee, k, _kw(c, t, k))
            if p.kind == 'return' and meth not in ('clear', '__setitem__', '__delitem__'):
                cv = V('ret', c.seq, tuple(sorted(x.qual for x in c.d['targets'])))
                if p.outcome[1] != cv:
                    ok, why = False, 'does not return the result of Cache.%s' % callee
        obs.append(Ob('I1', '%s.%s' % (cls, meth), ok and n > 0, '%s.%s %s' % (cls, meth, why), f.loc()))
    # Deque: append/appendleft sides, extend/extendleft, item access through _index
    for meth, side in (('append', ('back', None)), ('appendleft', 'front')):
        f = ctx.method('Deque', meth)
        ok = False
        for p in ctx.paths(f, 'plain'):
            for e in p.trace:
                if real_call(e) and e.d['targets'][0].name == 'push':
                    ok = _matches(_kw(e, e.d['targets'][0], 'side'), side) and \
                        _matches(_kw(e, e.d['targets'][0], 'value'), '=value')
        obs.append(Ob('I1', 'Deque.%s/side' % meth, ok, 'Deque.%s does not push its value on the %s side' % (meth, side),
                      f.loc()))
    for meth, callee in (('extend', 'append'), ('extendleft', 'appendleft')):
        f = ctx.method('Deque', meth)
        ok = False
        for p in ctx.paths(f, 'plain'):
            fors = [e for e in p.trace if e.kind == 'FOR' and e.d['it'] == 1]
            for e in p.trace:
                if real_call(e) and e.d['targets'][0].name == callee and fors:
                    a = e.d['args'][0] if e.d['args'] else None
                    ok = a is not None and a.k == 'elem' and a.a[0].k == 'param' and a.a[0].a[0] == 'iterable'
        obs.append(Ob('I1', 'Deque.%s/each-%s' % (meth, callee), ok, 'Deque.%s does not %s every element of the iterable'
                      % (meth, callee), f.loc()))
    # Index.__eq__: lengths are compared before any content (zip truncates: a common prefix would compare equal)
    f = ctx.method('Index', '__eq__')
    ok, n = True, 0
    for p in ctx.paths(f, 'plain'):
        if p.kind != 'return':
            continue
        n += 1
        lt = [e for e in p.trace if e.kind == 'TEST' and e.d['val'].k == 'cmp' and e.d['val'].a[0] in (('NotEq',), ('Eq',))
              and all(any(y.k == 'term' and y.a[0] == 'len' or (y.k == 'ret' and any(q.endswith('__len__') for q in y.a[1]))
                          for y in values_in(x)) for x in e.d['val'].a[1])]
        content = [e for e in p.trace if (e.kind == 'CALL' and e.d['name'] in ('__getitem__', 'get', 'items', '__iter__'))
                   or (e.kind == 'MCALL' and e.d['name'] in ('items', 'get', 'keys', 'values'))]
        if content and (not lt or lt[0].seq > content[0].seq):
            ok = False
    okp, bad_pair = True, None
    for g in ast.walk(f.node):
        if isinstance(g, (ast.GeneratorExp, ast.ListComp)) and len(g.generators) == 1 and isinstance(g.elt, ast.Tuple) \
                and isinstance(g.generators[0].iter, ast.Name) and isinstance(g.generators[0].target, ast.Name):
            it, var = g.generators[0].iter.id, g.generators[0].target.id
            for sub in ast.walk(g.elt):
                if isinstance(sub, ast.Subscript) and isinstance(sub.value, ast.Name) and isinstance(sub.slice, ast.Name) \
                        and sub.slice.id == var and sub.value.id != it:
                    okp, bad_pair = False, sub
    obs.append(Ob('I1', 'Index.__eq__/pairs-from-the-iterated-mapping', okp,
                  'an item stream of Index.__eq__ iterates the keys of one mapping but reads the values of the other '
                  '(%s): the values of `other` are never compared' % (ast.unparse(bad_pair) if bad_pair is not None else ''),
                  f.loc(bad_pair) if bad_pair is not None else f.loc()))
    obs.append(Ob('I1', 'Index.__eq__/length-first', ok and n > 0,
                  'Index.__eq__ looks at items before it has compared the lengths: pairing with zip() stops at the '
                  'shorter side, so an index equals any ordered mapping it is a prefix of', f.loc()))
    for meth, func in (('__getitem__', '__getitem__'), ('__delitem__', '__delitem__')):
        f = ctx.method('Deque', meth)
        ok = False
        for p in ctx.paths(f, 'plain'):
            for e in p.trace:
                t0 = e.d['targets'][0] if e.kind == 'CALL' else None
                # the position-resolving helper: a private Deque method handed the index and a callable
                if t0 is not None and t0.cls == 'Deque' and t0.name.startswith('_') and not t0.name.startswith('__') \
                        and len(e.d['args']) == 2 and e.d['args'][1].k in ('bound', 'func'):
                    a = e.d['args']
                    ok = len(a) == 2 and a[0].k == 'param' and a[0].a[0] == 'index' and (
                        a[1].k == 'bound' and a[1].a[1] == func or _closure_calls(ctx, a[1], func))
        obs.append(Ob('I1', 'Deque.%s/via-index' % meth, ok, 'Deque.%s does not resolve the position with _index and '
                      'apply Cache.%s' % (meth, func), f.loc()))
    # dict.setdefault never raises KeyError: a lookup `cache[key]` in Index.setdefault is either guarded by a handler
    # (the get-or-add retry loop) or runs in a transaction together with the add - between an add() that found the key
    # present and a bare lookup another client can delete it
    sd = ctx.method('Index', 'setdefault')
    parents = {}
    for n in ast.walk(sd.node):
        for c in ast.iter_child_nodes(n):
            parents[id(c)] = n
    bare = []
    nsub = 0
    for n in ast.walk(sd.node):
        if isinstance(n, ast.Subscript) and isinstance(n.ctx, ast.Load) and isinstance(n.slice, ast.Name) \
                and n.slice.id in sd.params:
            nsub += 1
            guarded, x = False, n
            while id(x) in parents:
                par = parents[id(x)]
                if isinstance(par, ast.Try) and x in par.body and any(
                        h.type is None or any(t in ast.unparse(h.type) for t in ('KeyError', 'LookupError', 'Exception'))
                        for h in par.handlers):
                    guarded = True
                if isinstance(par, ast.With) and any('transact' in ast.unparse(i.context_expr) for i in par.items):
                    guarded = True
                x = par
            if not guarded:
                bare.append(n.lineno)
    obs.append(Ob('I1', 'Index.setdefault/lookup-cannot-raise-keyerror', not bare,
                  'Index.setdefault reads cache[key] (line %s) outside a KeyError handler and outside a transaction: '
                  'when another client deletes the key between the add() and this lookup, setdefault raises KeyError, '
                  'which dict.setdefault never does' % bare, sd.loc()))
    # None is a value: code of persistent.py that decides "key missing" from the result of a get() must use a sentinel
    # default (ENOVAL), not the default None
    pm = ctx.prog.modules.get('persistent')
    bad = []
    if pm is not None:
        for fn in [x for x in ast.walk(pm.tree) if isinstance(x, (ast.FunctionDef, ast.Lambda))]:
            aliases = set()
            for n in ast.walk(fn):
                if isinstance(n, ast.Assign) and len(n.targets) == 1 and isinstance(n.targets[0], ast.Name) \
                        and isinstance(n.value, ast.Attribute) and n.value.attr == 'get':
                    aliases.add(n.targets[0].id)
            none_gets = []
            for n in ast.walk(fn):
                if isinstance(n, ast.Call) and ((isinstance(n.func, ast.Attribute) and n.func.attr == 'get')
                                                or (isinstance(n.func, ast.Name) and n.func.id in aliases)):
                    d = n.args[1] if len(n.args) > 1 else next((k.value for k in n.keywords if k.arg == 'default'), None)
                    if any(k.arg is None for k in n.keywords) or any(isinstance(a, ast.Starred) for a in n.args):
                        continue
                    if d is None or (isinstance(d, ast.Constant) and d.value is None):
                        none_gets.append(n)
            if not none_gets:
                continue
            names = set()
            for n in ast.walk(fn):
                if isinstance(n, ast.Assign) and n.value in none_gets and len(n.targets) == 1 \
                        and isinstance(n.targets[0], ast.Name):
                    names.add(n.targets[0].id)
            for n in ast.walk(fn):
                if isinstance(n, ast.Compare) and len(n.ops) == 1 and isinstance(n.ops[0], (ast.Is, ast.IsNot)):
                    sides = [n.left, n.comparators[0]]
                    if any(isinstance(x, ast.Constant) and x.value is None for x in sides) and any(
                            x in none_gets or (isinstance(x, ast.Name) and x.id in names) for x in sides):
                        bad.append(n.lineno)
    obs.append(Ob('I1', 'Index.lookups/none-is-a-value', not bad,
                  'persistent.py decides that a key is missing from `get(...) is None` with the default None (line %s): '
                  'an item whose stored value is None is then treated as absent' % bad, 'diskcache/persistent.py:1'))
    # keyword arguments of a mapping's update()/constructor ARE items: dict.update(other=1) stores the key 'other'
    # (the abc mixin takes its source positional-only).  A re-implementation that names the source parameter captures
    # that keyword instead of storing it.
    for cname in ('Index',):
        ci = ctx.prog.classes.get(cname)
        fn = ci.methods.get('update') if ci is not None else None
        if fn is None:
            obs.append(Ob('I1', '%s.update/keyword-items-not-captured' % cname, True, '', 'diskcache/persistent.py:1'))
            continue
        a = fn.node.args
        named = [x.arg for x in a.args[1:]] + [x.arg for x in a.kwonlyargs]
        ok = a.kwarg is None or not named
        obs.append(Ob('I1', '%s.update/keyword-items-not-captured' % cname, ok,
                      '%s.update takes keyword items (**%s) but also names the parameter(s) %s, which can be passed by '
                      'keyword: update(%s=...) is taken as the source instead of storing the key %r as a dict does'
                      % (cname, a.kwarg.arg if a.kwarg else '', named, named[0] if named else '', named[0] if named else ''),
                      fn.loc()))
    return obs


@rule('B6', floor=2, title='reset(key, value) writes through to the Settings table whenever update is requested')
def b6(ctx):
    f = ctx.method('Cache', 'reset')
    ok, n, wit = True, 0, None
    okr, nr = True, 0
    for p in ctx.paths(f, 'plain'):
        if p.kind == 'cut':
            continue
        val = V('param', 'value', 'core')
        sentinel = p.st.facts.get(('eq', frozenset((val, V('modconst', 'core', 'ENOVAL')))))
        upd = p.st.facts.get(('truthy', V('param', 'update', 'core')))
        writes = [e for e in sql_events(p.trace, 'update', 'Settings')]
        reads = [e for e in sql_events(p.trace, 'select', 'Settings')]
        if sentinel is True:
            nr += 1
            if writes or not reads or p.kind != 'return':
                okr = False
            elif not (p.outcome[1].k == 'col' and p.outcome[1].a[1] == 'value'):
                okr = False
        elif sentinel is False and upd is True and p.kind in ('return', 'next'):
            n += 1
            if len(writes) != 1:
                ok, wit = False, fmt_trace(p.trace)
        elif sentinel is False and upd is False and writes:
            ok, wit = False, fmt_trace(p.trace)
    return [Ob('B6', 'Cache.reset/read-form', okr and nr > 0, 'reset(key) must read the value from the Settings table '
               '(not from the per-handle attribute) and return it', f.loc()),
            Ob('B6', 'Cache.reset/write-through', ok and n > 0,
               'reset(key, value) skips the UPDATE of the Settings table on some path although update is requested '
               '(e.g. when the per-handle cached attribute already equals the value): a setting changed by another '
               'handle in between is silently kept', f.loc(), wit)]


def _iter_helper(ctx):
    """The private generator behind Cache.__iter__ / __reversed__."""
    from .framework import private_callee
    return private_callee(ctx, 'Cache', ('__iter__', '__reversed__'), pick=lambda g: g.is_generator)


# ---------------------------------------------------------------------- I3
def _bounded_eval(v, m, lens):
    """Concrete value of an abstract value for maxlen m and the recorded lengths; raises KeyError if unknown."""
    if v.is_const:
        return v.val
    if v.k == 'ret' and v.a[0] in lens:
        return lens[v.a[0]]
    if v.k == 'selfattr' and v.a[1] in ('_maxlen', 'maxlen'):
        return m
    if v.k == 'not':
        return not _bounded_eval(v.a[0], m, lens)
    if v.k == 'term' and v.a[0] in ('Add', 'Sub') and len(v.a[1]) == 2:
        a, b = (_bounded_eval(x, m, lens) for x in v.a[1])
        return a + b if v.a[0] == 'Add' else a - b
    if v.k == 'cmp' and len(v.a[0]) == 1:
        a, b = (_bounded_eval(x, m, lens) for x in v.a[1])
        op = v.a[0][0]
        if op in ('Is', 'IsNot'):
            r = (a is b) if not isinstance(a, float) else (a == b)
            return r if op == 'Is' else not r
        return {'Lt': a < b, 'LtE': a <= b, 'Gt': a > b, 'GtE': a >= b, 'Eq': a == b, 'NotEq': a != b}[op]
    raise KeyError(v.k)


@rule('I3', floor=2, title='Deque.append/appendleft keep the length at min(n + 1, maxlen) for every maxlen including 0')
def i3(ctx):
    """Decided by running every enumerated path of the method on the finite abstraction (maxlen, current length) in
    {0, 1, 3, inf} x {0..maxlen}: the branch tests of a path are evaluated on the counters, a push adds one, a pop
    removes one.  collections.deque(maxlen=0) discards everything."""
    obs = []
    INF = float('inf')
    for meth in ('append', 'appendleft'):
        f = ctx.method('Deque', meth)
        ok, why, decided = True, '', 0
        undecidable = False
        for m in (0, 1, 3, INF):
            for n in range(0, 4 if m == INF else int(m) + 1):
                feasible = 0
                for p in ctx.paths(f, 'plain'):
                    if p.kind not in ('return', 'next'):
                        continue
                    cur, lens, good = n, {}, True
                    try:
                        for e in p.trace:
                            if e.kind == 'CALL':
                                t = e.d['targets'][0]
                                if e.d.get('inlined'):
                                    continue
                                if t.name == 'push':
                                    cur += 1
                                elif t.name in ('pop', 'popleft', 'pull') and t.cls in ('Deque', 'Cache'):
                                    cur = max(0, cur - 1)
                                elif t.name == '__len__':
                                    lens[e.seq] = cur
                            elif e.kind == 'TEST':
                                val = _bounded_eval(e.d['val'], m, lens)
                                if bool(val) != bool(e.d['truth']):
                                    good = False
                                    break
                    except (KeyError, TypeError):
                        undecidable = True
                        good = False
                    if not good:
                        continue
                    feasible += 1
                    decided += 1
                    want = min(n + 1, m)
                    if cur != want:
                        ok = False
                        why = 'with maxlen=%s and %d items, %s leaves %s items (collections.deque leaves %s)' % (
                            m, n, meth, cur, want)
                if feasible == 0 and not undecidable:
                    ok, why = False, 'no path of %s is feasible for maxlen=%s with %d items' % (meth, m, n)
        if undecidable:
            # a branch condition outside the abstraction: no verdict for this shape (never an alarm)
            obs.append(Ob('I3', 'Deque.%s/bounded' % meth, True, 'not decided: a branch test is outside the '
                          '(maxlen, length) abstraction', f.loc(), nontrivial=False))
        else:
            obs.append(Ob('I3', 'Deque.%s/bounded' % meth, ok and decided > 0, 'Deque.%s: %s' % (meth, why), f.loc()))
    return obs


# ---------------------------------------------------------------------- I4
@rule('I4', floor=7, title='Deque comparisons have sequence semantics: NotImplemented for non-sequences, first difference decides, '
                           'then the lengths; each dunder is built from its own operator')
def i4(ctx):
    """The comparison factory is specialised to each of the six operators (its parameter bound to operator.eq, ...,
    the closure analysed with the factory's resulting locals), so it does not matter whether a decision is taken in
    the factory or in the closure."""
    obs = []
    try:
        f = ctx.func('persistent._make_compare.<locals>.compare')
    except AnalysisError:
        return [Ob('I4', 'Deque/compare-shape', True, 'not decided: comparisons are not built by one factory', '',
                   nontrivial=False)] * 7
    maker = f.parent
    opname = maker.posparams[0]
    from .interp import Interp
    res = {k: [True, None] for k in ('non-sequence', 'length-shortcut', 'first-difference', 'equal-prefix', 'only-these')}
    counts = dict.fromkeys(res, 0)
    for which in ('eq', 'ne', 'lt', 'gt', 'le', 'ge'):
        opv = V('extfn', 'operator.' + which)
        it = Interp(ctx.prog, ctx.opts('plain'))
        mpaths = [p for p in it.run(maker, env={opname: opv}) if p.kind == 'return']
        if not mpaths:
            raise AnalysisError('I4: the comparison factory does not return for operator.%s' % which)
        for mp in mpaths:
            env = {k: v for k, v in mp.st.env.items() if k not in f.posparams}
            it2 = Interp(ctx.prog, ctx.opts('plain'))
            for p in it2.run(f, env=env):
                if p.kind != 'return':
                    continue
                tr = p.trace
                rv = p.outcome[1]
                tests = [e for e in tr if e.kind == 'TEST']
                inst = [e for e in tests if e.d['val'].k == 'term' and e.d['val'].a[0] == 'isinstance']
                not_seq = any(not e.d['truth'] for e in inst)
                if not_seq or (rv.k == 'builtin' and rv.a[0] == 'NotImplemented'):
                    counts['non-sequence'] += 1
                    if not (not_seq and rv.k == 'builtin' and rv.a[0] == 'NotImplemented'):
                        res['non-sequence'] = [False, fmt_trace(tr)]
                    continue
                lens_differ = any(e.d['truth'] and e.d['val'].k == 'cmp' and e.d['val'].a[0] == ('NotEq',)
                                  and all(x.k == 'term' and x.a[0] == 'len' for x in e.d['val'].a[1]) for e in tests)
                if rv.is_const:
                    counts['length-shortcut'] += 1
                    want = {'eq': False, 'ne': True}.get(which, 'none')
                    if not (lens_differ and rv.val is want):
                        res['length-shortcut'] = [False, ['operator.%s' % which] + fmt_trace(tr)]
                    continue
                call = tr[rv.a[1]] if rv.k == 'ext' and isinstance(rv.a[1], int) else None
                if call is not None and call.kind == 'EXT' and call.d['name'] == 'operator.' + which:
                    args = call.d['args']
                    before = [e for e in tr[:call.seq] if e.kind == 'TEST']
                    if len(args) == 2 and all(a_.k == 'field' and a_.a[0].k == 'elem' for a_ in args):
                        counts['first-difference'] += 1
                        last = before[-1] if before else None
                        good = last is not None and last.d['truth'] and last.d['val'].k == 'cmp' and \
                            last.d['val'].a[0] == ('NotEq',) and tuple(last.d['val'].a[1]) == tuple(args) and \
                            args[0].a[1] == 0 and args[1].a[1] == 1 and args[0].a[0] == args[1].a[0]
                        zipv = args[0].a[0].a[0]
                        good = good and zipv.k == 'term' and zipv.a[0] == 'zip' and len(zipv.a[1]) == 2 and \
                            zipv.a[1][0].k == 'param' and zipv.a[1][0].a[0] == f.posparams[0] and \
                            zipv.a[1][1].k == 'param' and zipv.a[1][1].a[0] == f.posparams[1]
                        if not good:
                            res['first-difference'] = [False, fmt_trace(tr)]
                        continue
                    if len(args) == 2 and all(a_.k == 'term' and a_.a[0] == 'len' for a_ in args):
                        counts['equal-prefix'] += 1
                        good = args[0].a[1][0].k == 'param' and args[0].a[1][0].a[0] == f.posparams[0] and \
                            args[1].a[1][0].k == 'param' and args[1].a[1][0].a[0] == f.posparams[1]
                        if any(e.d['truth'] and e.d['val'].k == 'cmp' and e.d['val'].a[0] == ('NotEq',)
                               and all(x.k == 'field' for x in e.d['val'].a[1]) for e in tests):
                            good = False
                        # for == and != a length mismatch was already answered: here the lengths are equal or the
                        # operator orders them
                        if not good:
                            res['equal-prefix'] = [False, fmt_trace(tr)]
                        continue
                counts['only-these'] += 1
                res['only-these'] = [False, ['operator.%s' % which] + fmt_trace(tr)]
    msgs = {
        'non-sequence': 'comparison with a non-sequence does not return NotImplemented (or returns it for sequences)',
        'length-shortcut': 'a constant is returned for sequences of different length other than False for == and True '
                           'for !=',
        'first-difference': 'the first differing pair of zip(self, that) does not decide the comparison through the '
                            'method\'s own operator',
        'equal-prefix': 'when no pair differs the result is not the operator applied to the two lengths',
        'only-these': 'the comparison returns something other than NotImplemented / the == and != length shortcuts / the '
                      'operator applied to the first differing pair / the operator applied to the lengths',
    }
    for k, (ok, wit) in res.items():
        need = k != 'only-these'
        obs.append(Ob('I4', 'Deque.compare/' + k, ok and (counts[k] > 0 or not need), msgs[k], f.loc(), wit))
    # the dunder table of the class
    ci = ctx.prog.classes['Deque']
    want = {'__eq__': 'eq', '__ne__': 'ne', '__lt__': 'lt', '__gt__': 'gt', '__le__': 'le', '__ge__': 'ge'}
    got = {}
    for n in ci.node.body:
        if isinstance(n, ast.Assign) and len(n.targets) == 1 and isinstance(n.targets[0], ast.Name) \
                and n.targets[0].id in want and isinstance(n.value, ast.Call) and n.value.args:
            got[n.targets[0].id] = ctx.prog.resolve_name(ci.module, dotted(n.value.args[0]) or '')
    okt = all(got.get(k) == 'operator.' + v for k, v in want.items())
    obs.append(Ob('I4', 'Deque/dunder-table', okt, 'the comparison methods of Deque are not each built from their own '
                  'operator: %s' % got, 'diskcache/persistent.py:%d' % ci.node.lineno))
    obs.append(Ob('I4', 'Deque/has-comparisons', len(got) == 6, 'Deque does not define all six rich comparisons',
                  'diskcache/persistent.py:%d' % ci.node.lineno))
    return obs


# ---------------------------------------------------------------------- B7
@rule('B7', floor=2, title='generators never suspend while a statement is half-stepped: rows are fetched before the first yield')
def b7(ctx):
    """A generator that yields from inside `for row in <cursor>` leaves the SELECT open while it is suspended: the
    connection keeps its read snapshot, the client reads stale data and its next write fails with SQLITE_BUSY as
    soon as anybody else has committed."""
    obs = []
    # a generator that is not a context manager never suspends inside a transaction block: the write lock would be
    # held for as long as the consumer keeps the iterator, and abandoning it rolls back unrelated writes
    for f in ctx.prog.all_funcs():
        if not f.is_generator or f.is_contextmanager or f.parent is not None:
            continue
        held = None
        ny = 0
        for p in ctx.paths(f, 'plain'):
            for e in p.trace:
                if e.kind == 'YIELD':
                    ny += 1
                    if e.txn:
                        held = e
        if ny:
            obs.append(Ob('B7', '%s/no-yield-inside-transaction' % f.qual, held is None,
                          '%s yields while a transaction block is open: the write lock stays held while the iterator is '
                          'suspended (other clients time out) and an iterator that is dropped early rolls back writes made '
                          'meanwhile' % f.qual, f.loc(held.node) if held is not None else f.loc()))
    for f in ctx.prog.all_funcs():
        if f.module != 'core' or not f.is_generator or f.is_contextmanager:
            continue
        bad, n = None, 0
        for p in ctx.paths(f, 'plain'):
            open_cursor_loops = []
            for e in p.trace:
                if e.kind == 'FOR' and e.d.get('it') == 1:
                    itv = e.d['iter']
                    lazy = any(x.k == 'cursor' for x in values_in(itv)) and not any(
                        x.k in ('rows', 'row') for x in values_in(itv))
                    open_cursor_loops.append((e, lazy))
                elif e.kind == 'FOREND' and open_cursor_loops:
                    open_cursor_loops.pop()
                elif e.kind == 'YIELD':
                    n += 1
                    if any(lazy for _, lazy in open_cursor_loops):
                        bad = e
        obs.append(Ob('B7', '%s/no-yield-inside-open-cursor' % f.qual.replace('core.', ''), bad is None and n > 0,
                      '%s yields while iterating a cursor directly: the statement stays half-stepped while the '
                      'generator is suspended (stale snapshot for this client; its writes fail once another client '
                      'committed). Fetch the page first (fetchall) and yield from the list' % f.qual,
                      f.loc(bad.node) if bad is not None else f.loc()))
    return obs
