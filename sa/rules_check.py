"""H rules: Cache.check()."""
import ast

from .framework import rule, Ob, fmt_trace, values_in, deep_values
from .model import AnalysisError, walk_shallow, dotted
from .values import V
from . import sql as sqlmod

REPAIR_EXT = {'os.remove', 'os.unlink', 'os.rmdir', 'os.removedirs', 'shutil.rmtree'}


def _repairs(trace, fn):
    out = []
    for e in trace:
        if e.kind == 'SQL' and e.d['stmt'] is not None and e.d['stmt'].kind in ('vacuum', 'update', 'delete', 'insert',
                                                                               'unknown'):
            out.append(e)
        elif e.kind == 'EXT' and e.d['name'] in REPAIR_EXT:
            out.append(e)
        elif e.kind == 'CALL' and any(t.qual.endswith('Disk.remove') for t in e.d['targets']):
            out.append(e)
    return out


def _what(e):
    if e.kind == 'SQL':
        st = e.d['stmt']
        if st.kind == 'update':
            tgt = ''
            if st.where is not None and st.where[0] == 'cmp' and st.where[3][0] == 'param' and e.d.get('params') \
                    and not isinstance(e.d['params'], V) and st.where[3][1] < len(e.d['params']) \
                    and e.d['params'][st.where[3][1]].is_const:
                tgt = ':' + str(e.d['params'][st.where[3][1]].val)
            return 'update:%s:%s%s' % (st.table, ','.join(c for c, _ in st.assigns), tgt)
        return '%s:%s' % (st.kind, st.table)
    if e.kind == 'EXT':
        return e.d['name']
    return 'Disk.remove'


def _fix_true_before(trace, i):
    return any(e.kind == 'TEST' and e.d['val'].k == 'param' and e.d['val'].a[0] == 'fix' and e.d['truth']
               for e in trace[:i])


@rule('H1', floor=3, title='plain check() is read-only: every write, removal and VACUUM is dominated by `fix`')
def h1(ctx):
    f = ctx.method('Cache', 'check')
    sites = {}
    for p in ctx.paths(f, 'default'):
        for e in _repairs(p.trace, f):
            k = (e.line, e.node.col_offset, e.sites, _what(e))
            info = sites.setdefault(k, {'e': e, 'ok': True, 'wit': None})
            if not _fix_true_before(p.trace, e.seq):
                info['ok'] = False
                info['wit'] = info['wit'] or fmt_trace(p.trace)
    obs = []
    for k in sorted(sites):
        e = sites[k]['e']
        key = 'Cache.check/%s' % _what(e)
        n = sum(1 for o in obs if o.key.split('#')[0] == key)
        if n:
            key += '#%d' % (n + 1)
        obs.append(Ob('H1', key, sites[k]['ok'], 'check() without fix executes %s: a plain check must change nothing'
                      % _what(e), f.loc(e.node), sites[k]['wit']))
    return obs


@rule('H2', floor=6, title='every repair is reported: a warning is issued under the same condition before the repair')
def h2(ctx):
    f = ctx.method('Cache', 'check')
    sites = {}
    for p in ctx.paths(f, 'default'):
        tr = p.trace
        for e in _repairs(tr, f):
            if e.kind == 'SQL' and e.d['stmt'].kind == 'vacuum':
                continue
            k = (e.line, e.node.col_offset, e.sites, _what(e))
            info = sites.setdefault(k, {'e': e, 'ok': True, 'wit': None})
            # walk back: only the `fix` test (and decided tests) may sit between the warning and the repair
            good = False
            for x in reversed(tr[:e.seq]):
                if x.kind == 'EXT' and x.d['name'] == 'warnings.warn':
                    good = True
                    break
                if x.kind == 'TEST':
                    v = x.d['val']
                    if v.k == 'param' and v.a[0] == 'fix':
                        continue
                    if x.d.get('decided'):
                        continue
                    break
                if x.kind in ('FOR', 'FOREND', 'LOOP', 'SQL', 'CALL', 'CUT'):
                    break
            if not good:
                info['ok'] = False
                info['wit'] = info['wit'] or fmt_trace(tr)
    obs = []
    for k in sorted(sites):
        e = sites[k]['e']
        key = 'Cache.check/%s' % _what(e)
        n = sum(1 for o in obs if o.key.split('#')[0] == key)
        if n:
            key += '#%d' % (n + 1)
        obs.append(Ob('H2', key, sites[k]['ok'], 'repair %s is not preceded by warnings.warn under the same condition: '
                      'check(fix=True) would fix silently and report differently from check()' % _what(e),
                      f.loc(e.node), sites[k]['wit']))
    # the report does not depend on fix: no warnings.warn is control-dependent on `fix`
    bad = None
    for p in ctx.paths(f, 'default'):
        tr = p.trace
        for i, x in enumerate(tr):
            if x.kind == 'EXT' and x.d['name'] == 'warnings.warn':
                # find the innermost enclosing If in the AST that tests fix
                pass
    for n in [m for g in _with_helpers(ctx, f) for m in ast.walk(g.node)]:
        if isinstance(n, ast.If) and any(isinstance(m, ast.Name) and m.id == 'fix' for m in ast.walk(n.test)):
            for blk in [x for x in ast.walk(n) if hasattr(x, 'body') and isinstance(getattr(x, 'body'), list)]:
                for lst in (blk.body, getattr(blk, 'orelse', []) or []):
                    for i, stmt in enumerate(lst):
                        if isinstance(stmt, ast.Expr) and isinstance(stmt.value, ast.Call) and \
                                (dotted(stmt.value.func) or '').endswith('warnings.warn'):
                            # a warning inside the fix branch is legitimate only when it announces a repair that
                            # follows it right there (something that became inconsistent through the repair itself)
                            follows = any(isinstance(c, ast.Call) and ((dotted(c.func) or '').split('.')[-1] in
                                                                        ('rmdir', 'remove', 'unlink', 'removedirs', 'rmtree')
                                                                        or (dotted(c.func) or '') in ('sql',))
                                          for later in lst[i + 1:] for c in ast.walk(later))
                            if not follows:
                                bad = stmt.value
    obs.append(Ob('H2', 'Cache.check/report-independent-of-fix', bad is None,
                  'a warning is issued only under `fix` (or only without it): check() and check(fix=True) must report '
                  'the same inconsistencies', f.loc(bad) if bad is not None else f.loc()))
    return obs


@rule('H3', floor=2, title='directory pruning reaches a fixpoint in one pass (bottom-up, after unknown files are removed)')
def h3(ctx):
    f = ctx.method('Cache', 'check')
    obs = []
    # find the os.walk loop whose body removes directories (in check() or a private helper it calls)
    walk_for = None
    rm_for = None
    nodes = []
    for g in _with_helpers(ctx, f):
        nodes.extend(ast.walk(g.node))
    # `for ... in os.walk(...)`, also through a local name bound to the os.walk(...) call
    walk_names = {}
    for n in nodes:
        if isinstance(n, ast.Assign) and len(n.targets) == 1 and isinstance(n.targets[0], ast.Name) \
                and isinstance(n.value, ast.Call) and ctx.prog.resolve_name('core', dotted(n.value.func) or '') == 'os.walk':
            walk_names[n.targets[0].id] = n.value
    for n in nodes:
        if isinstance(n, ast.For) and isinstance(n.iter, ast.Name) and n.iter.id in walk_names:
            n = _ForView(n, walk_names[n.iter.id])
        if isinstance(n, (ast.For, _ForView)) and isinstance(n.iter, ast.Call) and \
                ctx.prog.resolve_name('core', dotted(n.iter.func) or '') == 'os.walk':
            body_calls = [ctx.prog.resolve_name('core', dotted(m.func) or '') for m in ast.walk(n)
                          if isinstance(m, ast.Call)]
            if 'os.rmdir' in body_calls or 'os.removedirs' in body_calls:
                walk_for = n
            if 'os.remove' in body_calls or 'os.unlink' in body_calls:
                rm_for = n
    if walk_for is None:
        raise AnalysisError('H3: no os.walk loop that removes directories found in Cache.check')
    topdown = True
    for k in walk_for.iter.keywords:
        if k.arg == 'topdown' and isinstance(k.value, ast.Constant):
            topdown = bool(k.value.value)
    if len(walk_for.iter.args) > 1 and isinstance(walk_for.iter.args[1], ast.Constant):
        topdown = bool(walk_for.iter.args[1].value)
    relist = any(isinstance(m, ast.Call) and ctx.prog.resolve_name('core', dotted(m.func) or '') in
                 ('os.listdir', 'os.scandir') for m in ast.walk(walk_for))
    # ... or remembers what it has pruned (a set that receives the pruned directory and is consulted for children)
    relist = relist or any(isinstance(m, ast.Call) and isinstance(m.func, ast.Attribute) and m.func.attr == 'add'
                           and any(isinstance(a, ast.Name) for a in m.args) for m in ast.walk(walk_for))
    obs.append(Ob('H3', 'Cache.check/prune-bottom-up', (not topdown) and relist or
                  (not topdown and _uses_removedirs(ctx, walk_for)),
                  'empty directories are pruned by a top-down os.walk using the listing taken before any removal: a '
                  'directory that becomes empty because its only child was just removed is left behind, so a second '
                  'check(fix=True) still reports "empty directory"', f.loc(walk_for)))
    # order on paths: no unknown-file removal after the first directory removal
    ordered, seen_both = True, False
    for p in ctx.paths(f, 'default')[:600]:
        rmd = [e.seq for e in p.trace if e.kind == 'EXT' and e.d['name'] in ('os.rmdir', 'os.removedirs')]
        rmf = [e.seq for e in p.trace if e.kind == 'EXT' and e.d['name'] in ('os.remove', 'os.unlink')]
        if rmd and rmf:
            seen_both = True
            if max(rmf) > min(rmd):
                ordered = False
    obs.append(Ob('H3', 'Cache.check/files-before-dirs', rm_for is not None and seen_both and ordered,
                  'unknown files must be removed before empty directories are looked for', f.loc(walk_for)))
    return obs


class _ForView:
    """A `for` loop over a name bound to os.walk(...), seen as if it iterated the call directly."""
    def __init__(self, node, call):
        self._node = node
        self.iter = call
        self.body = node.body
        self.orelse = node.orelse
        self.target = node.target
        self.lineno = node.lineno
        self.col_offset = node.col_offset
        self._fields = node._fields

    def __getattr__(self, name):
        return getattr(self._node, name)


def _same_value(a, b, trace, depth=0):
    """Two abstract values denote the same run-time value: equal, or the same pure function of the same values."""
    if a == b:
        return True
    if depth < 4 and a.k == 'ext' and b.k == 'ext' and a.a[0] == b.a[0] and a.a[0].startswith('os.path.'):
        aa, ba = trace[a.a[1]].d['args'], trace[b.a[1]].d['args']
        return len(aa) == len(ba) and all(_same_value(x, y, trace, depth + 1) for x, y in zip(aa, ba))
    return False


def _is_cache_dir(a, trace, depth=0):
    """The cache directory, possibly normalised by os.path functions."""
    if a.k == 'selfattr' and a.a[1] in ('_directory', 'directory'):
        return True
    if depth < 4 and a.k == 'ext' and a.a[0] in ('os.path.abspath', 'os.path.realpath', 'os.path.normpath'):
        args = trace[a.a[1]].d['args']
        return len(args) == 1 and _is_cache_dir(args[0], trace, depth + 1)
    return False


def _with_helpers(ctx, f):
    """f and the private methods of its class it calls (transitively)."""
    out, work = [f], [f]
    cls = ctx.prog.classes.get(f.cls) if f.cls else None
    while work and cls is not None:
        g = work.pop()
        for n in ast.walk(g.node):
            if isinstance(n, ast.Call) and (dotted(n.func) or '').startswith('self._'):
                h = ctx.prog.lookup(f.cls, dotted(n.func)[5:])
                if h is not None and h not in out and not h.is_property and not h.is_contextmanager:
                    out.append(h)
                    work.append(h)
    return out


def _uses_removedirs(ctx, node):
    return any(isinstance(m, ast.Call) and ctx.prog.resolve_name('core', dotted(m.func) or '') == 'os.removedirs'
               for m in ast.walk(node))


@rule('H4', floor=6, title='check() compares rows with files and counters with rows, inside one transaction')
def h4(ctx):
    f = ctx.method('Cache', 'check')
    have = {'integrity': False, 'rows-vs-files': False, 'files-vs-rows': False, 'count': False, 'size': False}
    in_txn = True
    all_file_rows = True
    for p in ctx.paths(f, 'default')[:400]:
        for e in p.trace:
            if e.kind == 'SQL' and e.d['stmt'] is not None:
                st = e.d['stmt']
                if st.kind == 'pragma' and st.pragma == 'integrity_check':
                    have['integrity'] = True
                if st.kind == 'select' and 'filename' in st.colnames and 'size' in st.colnames:
                    have['rows-vs-files'] = True
                    in_txn = in_txn and bool(e.txn)
                    # the comparison covers every row that names a file: no filter, or exactly filename IS NOT NULL
                    w = st.where
                    if not (w is None or (w[0] == 'isnull' and w[2] and sqlmod.colname(w[1]) == 'filename')):
                        all_file_rows = False
                if st.kind == 'select' and any('COUNT' in c for c in st.colnames):
                    have['count'] = True
                    in_txn = in_txn and bool(e.txn)
                if st.kind == 'select' and any('SUM(size)' in c.replace(' ', '') for c in st.colnames):
                    have['size'] = True
                    in_txn = in_txn and bool(e.txn)
            if e.kind == 'EXT' and e.d['name'] == 'os.walk':
                have['files-vs-rows'] = True
                in_txn = in_txn and bool(e.txn)
    obs = [Ob('H4', 'Cache.check/' + k, v, 'check() no longer performs the %s comparison' % k, f.loc())
           for k, v in sorted(have.items())]
    # the directory scans happen on every path (not only when some row names a file)
    always, wit = True, None
    same_ctor, wit2 = True, None
    npaths = 0
    for p in ctx.paths(f, 'default')[:600]:
        if p.kind not in ('return', 'next'):
            continue
        npaths += 1
        walks = [e for e in p.trace if e.kind == 'EXT' and e.d['name'] == 'os.walk']
        if len(walks) < 2:
            always = False
            wit = wit or fmt_trace(p.trace)
        # known files and walked files are both absolute paths built by os.path.join(<root>, <relative name>),
        # with the same root expression
        roots = []
        for e in p.trace:
            if e.kind == 'MCALL' and e.d['name'] == 'add' and e.d['args'] and any(
                    x.k == 'col' and x.a[1] == 'filename' for x in deep_values(e.d['args'][0], p.trace)):
                a = e.d['args'][0]
                good = a.k == 'ext' and a.a[0] == 'os.path.join'
                if good:
                    je = p.trace[a.a[1]]
                    ja = je.d['args']
                    good = len(ja) == 2 and ja[1].k == 'col' and ja[1].a[1] == 'filename'
                    if good:
                        roots.append(ja[0])
                if not good:
                    same_ctor = False
                    wit2 = wit2 or fmt_trace(p.trace)
        for e in walks:
            a = e.d['args'][0] if e.d['args'] else None
            if a is None or not _is_cache_dir(a, p.trace):
                always = False
                wit = wit or fmt_trace(p.trace)
            for r in roots:
                if a is None or not _same_value(a, r, p.trace):
                    same_ctor = False
                    wit2 = wit2 or fmt_trace(p.trace)
    if any(isinstance(n, ast.Subscript) and isinstance(n.slice, ast.Slice) and 'dirpath' in ast.unparse(n.value)
           for g in _with_helpers(ctx, f) for n in ast.walk(g.node)):
        same_ctor = False
    obs.append(Ob('H4', 'Cache.check/scans-on-every-path', always and npaths > 0,
                  'the two directory scans (unknown files, empty directories) are skipped on some path, e.g. when no '
                  'row names a file: debris in an inline-only cache or shard is never reported or removed', f.loc(), wit))
    obs.append(Ob('H4', 'Cache.check/paths-compared-as-joined', same_ctor and npaths > 0,
                  'known files and walked files are not both compared as os.path.join(root, relative name): string '
                  'slicing of the walked directory (or relative names) breaks when the cache directory was given with '
                  'a trailing separator, and every value file is reported unknown and removed', f.loc(), wit2))
    obs.append(Ob('H4', 'Cache.check/every-file-row-compared', all_file_rows,
                  'the rows compared with the files are selected by something other than `filename IS NOT NULL`: rows '
                  'that name a file but fail the filter (e.g. a zero-length file with size 0) are treated as unknown '
                  'files, reported on a healthy cache and deleted by check(fix=True)', f.loc()))
    obs.append(Ob('H4', 'Cache.check/one-transaction', in_txn, 'the comparisons of check() do not run inside one '
                  'transaction: concurrent writers make it report phantom inconsistencies (and fix them)', f.loc()))
    return obs


@rule('H5', floor=5, title='check(fix=True) repairs what it reports: every warning about a repairable inconsistency is followed by its repair')
def h5(ctx):
    f = ctx.method('Cache', 'check')
    sites = {}
    for p in ctx.paths(f, 'default'):
        if p.kind == 'cut':
            continue
        tr = p.trace
        warns = [e for e in tr if e.kind == 'EXT' and e.d['name'] == 'warnings.warn']
        for i, w in enumerate(warns):
            k = (w.line, w.node.col_offset, w.sites)
            info = sites.setdefault(k, {'e': w, 'fix_tested': False, 'ok': True, 'wit': None, 'integrity': False})
            # messages of PRAGMA integrity_check are reported as they come: nothing to repair
            a = w.d['args'][0] if w.d['args'] else None
            if a is not None and any(x.k in ('row', 'rows', 'col') and _from_pragma(x, tr) for x in deep_values(a, tr)):
                info['integrity'] = True
                continue
            end = warns[i + 1].seq if i + 1 < len(warns) else len(tr)
            seg = tr[w.seq + 1:end]
            # stop at the end of the loop iteration the warning belongs to
            cut = [j for j, x in enumerate(seg) if x.kind in ('FOREND', 'FOR')]
            if cut:
                seg = seg[:cut[0]]
            ft = [x for x in seg if x.kind == 'TEST' and x.d['val'].k == 'param' and x.d['val'].a[0] == 'fix']
            if not ft and _fix_true_before(tr, w.seq):
                # a warning issued while repairing (about something the repair itself uncovered): it has to be
                # followed by its own repair
                info['fix_tested'] = True
                if not _repairs(seg, f):
                    info['ok'] = False
                    info['wit'] = info['wit'] or fmt_trace(tr)
                continue
            if not ft:
                continue
            info['fix_tested'] = True
            if ft[0].d['truth']:
                rep = [x for x in _repairs(seg, f) if x.seq > ft[0].seq]
                if not rep:
                    info['ok'] = False
                    info['wit'] = info['wit'] or fmt_trace(tr)
    obs = []
    n = 0
    for k in sorted(sites, key=lambda k: (k[0], k[1], str(k[2]))):
        info = sites[k]
        if info['integrity']:
            continue
        n += 1
        e = info['e']
        msg = e.d['args'][0] if e.d['args'] else None
        label = _warn_label(msg, e)
        key = 'Cache.check/%s' % label
        cnt = sum(1 for o in obs if o.key.split('#')[0] == key)
        if cnt:
            key += '#%d' % (cnt + 1)
        obs.append(Ob('H5', key, info['fix_tested'] and info['ok'],
                      'the inconsistency reported here (%s) is not repaired when fix is true (%s): check(fix=True) '
                      'reports it again on every run' % (label, 'no branch on `fix` follows the warning'
                                                         if not info['fix_tested'] else 'the fix branch repairs nothing'),
                      f.loc(e.node), info['wit']))
    return obs


def _from_pragma(x, tr):
    seq = x.a[0] if x.k in ('row', 'rows', 'col') and isinstance(x.a[0], int) else None
    if seq is None or seq >= len(tr):
        return False
    st = tr[seq].d.get('stmt') if tr[seq].kind == 'SQL' else None
    return st is not None and st.kind in ('pragma', 'pragma_set')


def _warn_label(msg, e):
    txt = ''
    if msg is not None:
        for x in values_in(msg):
            if x.is_const and isinstance(x.val, str):
                txt = x.val
                break
            if x.k == 'str':
                txt = x.a[0]
                break
    import re
    words = re.findall(r'[A-Za-z_.]+', txt)
    return '-'.join(words[:4]).lower() or 'warning@%d' % e.line


@rule('H6', floor=1, title="check() never treats SQLite's own files (database, -wal, -shm, -journal) as unknown files")
def h6(ctx):
    """The unknown-file scan walks the cache directory, which also holds cache.db and its companions.  The exemption
    must cover every name that starts with DBNAME: a rollback journal exists whenever the journal mode is not WAL,
    and removing a hot journal corrupts the database."""
    f = ctx.method('Cache', 'check')
    try:
        dbname = ctx.fold(ctx.prog.const_expr('core', 'DBNAME')[0], 'core')
    except Exception:
        raise AnalysisError('H6: DBNAME is not a constant')
    need = {dbname + sfx for sfx in ('', '-wal', '-shm', '-journal')}
    verdicts = []
    for p in ctx.paths(f, 'default')[:800]:
        tr = p.trace
        for w in [e for e in tr if e.kind == 'EXT' and e.d['name'] in ('os.remove', 'os.unlink')]:
            # the tests that guard this removal inside its loop iteration
            start = max([x.seq for x in tr[:w.seq] if x.kind == 'FOR'] or [0])
            for t in [x for x in tr[start:w.seq] if x.kind == 'TEST']:
                v = t.d['val']
                neg = False
                while v.k == 'not':
                    v, neg = v.a[0], not neg
                if v.k == 'cmp' and v.a[0] in (('In',), ('NotIn',)):
                    l, r = v.a[1]
                    if l.is_const and l.val == dbname:
                        verdicts.append(True)            # substring test on the path
                    elif r.is_const and isinstance(r.val, (set, frozenset, tuple, list, dict)) and dbname in r.val:
                        verdicts.append(need <= set(r.val))
                    elif r.k in ('set', 'tuple') and any(x.is_const and x.val == dbname for x in r.a[0]):
                        names = {x.val for x in r.a[0] if x.is_const}
                        verdicts.append(need <= names)
                elif v.k == 'mcall' and v.a[0] in ('startswith',) and isinstance(v.a[1], int):
                    a = tr[v.a[1]].d['args']
                    if a and a[0].is_const and a[0].val == dbname:
                        verdicts.append(True)
    if not verdicts:
        return [Ob('H6', 'Cache.check/database-files-exempt', True, 'not decided: no recognisable exemption test',
                   f.loc(), nontrivial=False)]
    return [Ob('H6', 'Cache.check/database-files-exempt', all(verdicts),
               'the unknown-file scan exempts only some of %s: with a rollback-journal mode check() reports the '
               'journal of a healthy cache as an unknown file and check(fix=True) deletes it' % sorted(need), f.loc())]
