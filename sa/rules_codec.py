"""K rules: codec tables and column binding."""
import ast
import codecs

from .framework import rule, Ob, fmt_trace, sql_events, call_events, values_in, deep_values
from .model import AnalysisError, walk_shallow, dotted
from .values import V
from .rules_lock import core_entries, _is_row_write, _stmt_sig
from .rules_file import _mode_name
from . import sql as sqlmod

MODES = ('MODE_NONE', 'MODE_RAW', 'MODE_BINARY', 'MODE_TEXT', 'MODE_PICKLE')


def mode_consts(ctx):
    out = {}
    for name in MODES:
        e, m = ctx.prog.const_expr('core', name)
        if e is None or not isinstance(e, ast.Constant):
            raise AnalysisError('anchor vanished: constant %s' % name)
        out[name] = e.value
    return out


def _store_paths(ctx):
    f = ctx.method('Disk', 'store')
    out = []
    for p in ctx.paths(f, 'plain'):
        if p.kind == 'return' and p.outcome[1].k == 'tuple' and len(p.outcome[1].a[0]) == 4:
            out.append(p)
    return f, out


def _fetch_paths(ctx):
    f = ctx.method('Disk', 'fetch')
    return f, [p for p in ctx.paths(f, 'plain') if p.kind != 'cut']


def _fetch_mode(p, consts):
    """Mode (name) the fetch path assumed equal to the `mode` parameter."""
    for e in p.trace:
        if e.kind == 'TEST' and e.d['truth'] and e.d['val'].k == 'cmp' and e.d['val'].a[0] == ('Eq',):
            a, b = e.d['val'].a[1]
            for x, y in ((a, b), (b, a)):
                if x.k == 'param' and x.a[0] == 'mode' and y.is_const:
                    for n, v in consts.items():
                        if v == y.val:
                            return n
    return None


@rule('K1', floor=5, title='every storage mode written by store is dispatched by fetch and returns on all paths')
def k1(ctx):
    consts = mode_consts(ctx)
    obs = [Ob('K1', 'mode-constants-distinct', len(set(consts.values())) == len(consts),
              'MODE_* constants are not pairwise distinct: %s' % consts, 'diskcache/core.py:1')]
    sf, sp = _store_paths(ctx)
    written = set()
    for p in sp:
        m = p.outcome[1].a[0][1]
        written.add(_mode_name(ctx, m))
    ff, fp = _fetch_paths(ctx)
    dispatched = {}
    for p in fp:
        m = _fetch_mode(p, consts)
        if m is None:
            continue
        ent = dispatched.setdefault(m, [True, None])
        if p.kind != 'return' and not (p.kind == 'raise'):
            ent[0] = False
            ent[1] = fmt_trace(p.trace)
    for m in sorted(written):
        ok = m in dispatched and dispatched[m][0]
        obs.append(Ob('K1', 'dispatch/%s' % m, ok,
                      'store writes %s but fetch %s' % (m, 'has a path for it that falls through without returning a '
                                                       'value' if m in dispatched else 'never dispatches on it: the value '
                                                       'reads back as None'), ff.loc(), dispatched.get(m, [0, None])[1]))
    return obs


def _open_events(trace):
    return [e for e in trace if e.kind == 'EXT' and e.d['name'] == 'builtins.open']


def _open_recipe(e):
    args, kw = e.d['args'], e.d['kwargs']
    mode = kw.get('mode') or (args[1] if len(args) > 1 else None)
    mode = mode.val if mode is not None and mode.is_const else ('r' if mode is None else '?')
    def g(name, pos, default):
        v = kw.get(name)
        if v is None and len(args) > pos:
            v = args[pos]
        if v is None:
            return default
        return v.val if v.is_const else '?'
    return {'mode': mode, 'encoding': g('encoding', 3, None), 'errors': g('errors', 4, None),
            'newline': g('newline', 5, None), 'buffering': g('buffering', 2, -1)}


def _codec_name(x):
    if x is None:
        return None
    try:
        return codecs.lookup(x).name
    except Exception:
        return '?' + str(x)


@rule('K2', floor=8, title='writer and reader recipes agree per storage mode (codec, newline, strictness, read to EOF)')
def k2(ctx):
    consts = mode_consts(ctx)
    sf, sp = _store_paths(ctx)
    ff, fp = _fetch_paths(ctx)
    obs = []
    W = {}   # (mode, inline) -> list of recipes
    for p in sp:
        size, mode, filename, value = p.outcome[1].a[0]
        m = _mode_name(ctx, mode)
        inline = filename.is_const and filename.val is None
        opens = _open_events(p.trace)
        rec = {'inline': inline, 'value': value, 'open': _open_recipe(opens[-1]) if opens else None, 'path': p,
               'dumps': [e for e in p.trace if e.kind == 'EXT' and e.d['name'] in ('pickle.dumps', 'pickle.dump')]}
        W.setdefault((m, inline), []).append(rec)
    # the name recorded in the row is the relative name of the pair Disk.filename returned, the file is opened under
    # the full path of the same pair (a swapped pair stores absolute paths: the cache breaks when it is opened through
    # a relative or moved directory)
    okn, nn = True, 0
    for p in sp:
        size, mode, filename, value = p.outcome[1].a[0]
        if filename.is_const and filename.val is None:
            continue
        nn += 1
        opens = _open_events(p.trace)
        oa = opens[-1].d['args'][0] if opens and opens[-1].d['args'] else None
        good = filename.k == 'field' and filename.a[1] == 0 and filename.a[0].k == 'ret' and \
            any(q.endswith('.filename') for q in filename.a[0].a[1])
        if good and oa is not None and not (oa.k == 'field' and oa.a[0] == filename.a[0] and oa.a[1] == 1):
            good = False
        if not good and filename.k in ('field', 'ret', 'ext', 'str'):
            okn = False
    obs.append(Ob('K2', 'store/records-relative-name', okn and nn > 0,
                  'Disk.store does not return the relative name (first element of Disk.filename()) while writing to the '
                  'full path (second element): rows would record absolute paths, which break when the directory is '
                  'given relatively or moved', sf.loc()))
    R = {}
    for p in fp:
        m = _fetch_mode(p, consts)
        if m is None or p.kind != 'return':
            continue
        opens = _open_events(p.trace)
        rv = p.outcome[1]
        reads = [e for e in p.trace if e.kind == 'MCALL' and e.d['name'] == 'read']
        loads = [e for e in p.trace if e.kind == 'EXT' and e.d['name'] in ('pickle.load', 'pickle.loads')]
        R.setdefault(m, []).append({'open': _open_recipe(opens[-1]) if opens else None, 'rv': rv, 'reads': reads,
                                    'loads': loads, 'path': p, 'opens': opens})

    def add(key, ok, msg, wit=None):
        obs.append(Ob('K2', key, ok, msg, ff.loc() if 'reader' in key or 'read' in key else sf.loc(), wit))

    # RAW: inline passthrough
    for rec in W.get(('MODE_RAW', True), []):
        v = rec['value']
        ok = (v.k == 'param' and v.a[0] == 'value') or (v.k == 'ext' and v.a[0] == 'sqlite3.Binary')
        if not ok:
            add('RAW/writer-passthrough', False, 'MODE_RAW stores something other than the value itself', fmt_trace(rec['path'].trace))
            break
    else:
        add('RAW/writer-passthrough', bool(W.get(('MODE_RAW', True))), 'no MODE_RAW inline path')
    add('RAW/never-file', not W.get(('MODE_RAW', False)), 'MODE_RAW written with a file name: fetch would ignore it')
    raw_r = R.get('MODE_RAW', [])
    ok = bool(raw_r) and all(not r['opens'] and any(x.k == 'param' and x.a[0] == 'value' for x in values_in(r['rv']))
                             for r in raw_r)
    add('RAW/reader-passthrough', ok, 'fetch of MODE_RAW does not return the database value itself')
    # BINARY
    wb = W.get(('MODE_BINARY', False), [])
    ok = bool(wb) and all(r['open'] and r['open']['mode'] == 'xb' and r['open']['encoding'] is None for r in wb)
    add('BINARY/writer', ok, 'MODE_BINARY is not written as an exclusively created binary file')
    add('BINARY/never-inline', not W.get(('MODE_BINARY', True)), 'MODE_BINARY returned without a file')
    rb = R.get('MODE_BINARY', [])
    ok = bool(rb)
    why = 'no reader'
    for r in rb:
        o = r['open']
        if o is None or o['mode'] != 'rb':
            ok, why = False, 'reader does not open the file in mode rb (%s)' % (o and o['mode'])
        elif r['reads']:
            if any(e.d['args'] for e in r['reads']):
                ok, why = False, 'reader reads a bounded number of bytes, not to EOF'
        elif not (r['rv'].k == 'ext' and r['rv'].a[0] == 'builtins.open'):
            ok, why = False, 'reader returns neither the handle nor its full contents'
    add('BINARY/reader', ok, 'MODE_BINARY ' + why)
    # streams (read=True) are consumed to end-of-file
    okst, whyst, nst = True, '', 0
    for rec in wb:
        p = rec['path']
        wcalls = [e for e in p.trace if e.kind == 'CALL' and any(t.qual.endswith('Disk._write') for t in e.d['targets'])]
        if not wcalls or len(wcalls[-1].d['args']) < 2:
            continue
        itv = wcalls[-1].d['args'][1]
        if itv.k == 'ext' and itv.a[0] == 'io.BytesIO':
            continue     # in-memory bytes
        nst += 1
        if itv.k == 'term' and itv.a[0] == 'iter' and len(itv.a[1]) == 2:
            fn, sentinel = itv.a[1]
            good = sentinel.is_const and sentinel.val == b''
            if fn.k == 'ext' and fn.a[0] == 'functools.partial':
                pev = p.trace[fn.a[1]]
                a0 = pev.d['args'][0] if pev.d['args'] else None
                good = good and a0 is not None and a0.k == 'attr' and a0.a[1] == 'read' and a0.a[0].k == 'param'
            elif not (fn.k == 'attr' and fn.a[1] == 'read'):
                good = False
            if not good:
                okst, whyst = False, 'the stream is not read with iter(<value.read>, b\'\'): it may stop before end-of-file'
        elif itv.k == 'ret':
            for q in itv.a[1]:
                g = ctx.prog.funcs.get(q)
                if g is None:
                    okst, whyst = False, 'chunk iterator %s not analysable' % q
                    continue
                for gp in ctx.paths(g, 'plain'):
                    if gp.kind not in ('return', 'next'):
                        continue
                    reads = [e for e in gp.trace if e.kind == 'MCALL' and e.d['name'] == 'read']
                    if not reads:
                        continue
                    last = reads[-1]
                    cv = V('mcall', 'read', last.seq)
                    empties = False
                    for e in gp.trace[last.seq:]:
                        if e.kind != 'TEST':
                            continue
                        v = e.d['val']
                        if v == cv and not e.d['truth']:
                            empties = True
                        if v.k == 'not' and v.a[0] == cv and e.d['truth']:
                            empties = True
                        if v.k == 'cmp' and v.a[0] == ('Eq',) and e.d['truth'] and cv in v.a[1] and any(
                                x.is_const and x.val == b'' for x in v.a[1]):
                            empties = True
                        if v.k == 'cmp' and v.a[0] == ('Eq',) and e.d['truth'] and any(
                                x.k == 'term' and x.a[0] == 'len' and x.a[1] == (cv,) for x in v.a[1]) and any(
                                x.is_const and x.val == 0 for x in v.a[1]):
                            empties = True
                    if not empties:
                        okst, whyst = False, 'the chunk generator %s stops although the last read was not empty ' \
                                             '(a short read is not end-of-file for pipes, sockets, raw streams)' % q
        else:
            okst, whyst = False, 'chunk iterator of unknown shape %r' % (itv,)
    add('BINARY/stream-read-to-eof', okst and nst > 0, whyst or 'no stream path found')
    # TEXT
    wt = W.get(('MODE_TEXT', False), [])
    add('TEXT/never-inline', not W.get(('MODE_TEXT', True)), 'MODE_TEXT returned without a file')
    rt = R.get('MODE_TEXT', [])
    okw = bool(wt) and all(r['open'] and 'b' not in r['open']['mode'] and 'x' in r['open']['mode'] for r in wt)
    okr = bool(rt) and all(r['open'] and 'b' not in r['open']['mode'] and r['open']['mode'].startswith('r')
                           and r['reads'] and not any(e.d['args'] for e in r['reads']) for r in rt)
    add('TEXT/text-mode-both-sides', okw and okr, 'MODE_TEXT is not written and read in text mode to EOF')
    encw = {_codec_name(r['open']['encoding']) for r in wt if r['open']}
    encr = {_codec_name(r['open']['encoding']) for r in rt if r['open']}
    add('TEXT/same-codec', len(encw) == 1 and encw == encr and None not in encw and not any(
        str(x).startswith('?') for x in encw),
        'text codec differs or is locale dependent: writer %s, reader %s' % (sorted(map(str, encw)), sorted(map(str, encr))))
    errs = {r['open']['errors'] for r in wt + rt if r['open']}
    add('TEXT/strict-errors', errs <= {None, 'strict'}, 'text codec error handler %s silently alters values' % errs)
    nlw = {r['open']['newline'] for r in wt if r['open']}
    nlr = {r['open']['newline'] for r in rt if r['open']}
    add('TEXT/no-newline-translation', bool(wt) and bool(rt) and nlw <= {'', '\n'} and nlr == {''},
        'text files are opened with newline translation (writer newline=%r, reader newline=%r): "\\r" and "\\r\\n" '
        'inside a stored string come back as "\\n"' % (sorted(map(repr, nlw)), sorted(map(repr, nlr))),
        fmt_trace(rt[0]['path'].trace) if rt else None)
    # PICKLE
    wp_inline = W.get(('MODE_PICKLE', True), [])
    wp_file = W.get(('MODE_PICKLE', False), [])
    ok = bool(wp_inline) and bool(wp_file) and all(r['dumps'] for r in wp_inline + wp_file) and \
        all(r['value'].k == 'ext' and r['value'].a[0] == 'sqlite3.Binary' for r in wp_inline) and \
        all(r['open'] and r['open']['mode'] == 'xb' and r['value'].is_const and r['value'].val is None for r in wp_file)
    add('PICKLE/writer', ok, 'MODE_PICKLE is not pickle.dumps stored inline as a BLOB or in an exclusively created '
        'binary file with a NULL value column')
    rp = R.get('MODE_PICKLE', [])
    ok = bool(rp)
    n_file = n_inline = 0
    for r in rp:
        isnone = None
        for e in r['path'].trace:
            if e.kind == 'TEST' and e.d['val'].k == 'cmp' and e.d['val'].a[0] in (('Is',), ('IsNot',)):
                a, b = e.d['val'].a[1]
                if (a.k == 'param' and a.a[0] == 'value' and b.is_const and b.val is None) or \
                        (b.k == 'param' and b.a[0] == 'value' and a.is_const and a.val is None):
                    isnone = e.d['truth'] if e.d['val'].a[0] == ('Is',) else not e.d['truth']
        if isnone is True:
            n_file += 1
            if not (r['open'] and r['open']['mode'] == 'rb' and r['loads']):
                ok = False
        elif isnone is False:
            n_inline += 1
            if r['opens'] or not r['loads']:
                ok = False
        else:
            ok = False
    add('PICKLE/reader', ok and n_file > 0 and n_inline > 0,
        'MODE_PICKLE reader does not discriminate inline/file on `value is None` with pickle.load on both sides')
    return obs


@rule('K3', floor=1, title='floats stored natively exclude NaN (SQLite stores NaN as NULL)')
def k3(ctx):
    sf, sp = _store_paths(ctx)
    n = 0
    bad = None
    for p in sp:
        size, mode, filename, value = p.outcome[1].a[0]
        if _mode_name(ctx, mode) != 'MODE_RAW':
            continue
        is_float = False
        nan_excluded = False
        for e in p.trace:
            if e.kind != 'TEST':
                continue
            v = e.d['val']
            if v.k == 'cmp' and v.a[0] == ('Is',) and e.d['truth'] and any(
                    x.k == 'builtin' and x.a[0] == 'float' for x in v.a[1]):
                is_float = True
            if v.k == 'cmp' and v.a[0] in (('Eq',), ('NotEq',)) and len(v.a[1]) == 2 and v.a[1][0] == v.a[1][1] \
                    and v.a[1][0].k == 'param':
                nan_excluded = nan_excluded or (e.d['truth'] if v.a[0] == ('Eq',) else not e.d['truth'])
            if v.k in ('not',) and v.a[0].k == 'ext' and v.a[0].a[0] in ('math.isnan', 'cmath.isnan') and e.d['truth']:
                nan_excluded = True
            if v.k == 'ext' and v.a[0] in ('math.isnan',) and not e.d['truth']:
                nan_excluded = True
            if v.k == 'ext' and v.a[0] in ('math.isfinite',) and e.d['truth']:
                nan_excluded = True
        if is_float:
            n += 1
            if not nan_excluded:
                bad = p
    return [Ob('K3', 'Disk.store/float-raw-excludes-nan', bad is None and n > 0,
               'a float takes the native (MODE_RAW) representation with no test that excludes NaN; SQLite stores NaN as '
               'NULL, so float("nan") reads back as None', sf.loc(), fmt_trace(bad.trace) if bad else None)]


def _ext_names(trace):
    return [e.d['name'] for e in trace if e.kind == 'EXT']


@rule('K4', floor=8, title='key codec: put/get invert each other per raw flag; JSONDisk wraps both directions symmetrically')
def k4(ctx):
    obs = []
    put = ctx.method('Disk', 'put')
    get = ctx.method('Disk', 'get')
    shapes = {}
    for p in ctx.paths(put, 'plain'):
        if p.kind != 'return':
            continue
        rv = p.outcome[1]
        if rv.k != 'tuple' or len(rv.a[0]) != 2:
            obs.append(Ob('K4', 'put/shape', False, 'Disk.put does not return a (key, raw) pair', put.loc()))
            continue
        k, raw = rv.a[0]
        types = set()
        exact = True
        for e in p.trace:
            if e.kind == 'TEST' and e.d['truth'] and e.d['val'].k == 'cmp' and e.d['val'].a[0] == ('Is',):
                for x in e.d['val'].a[1]:
                    if x.k == 'builtin':
                        types.add(x.a[0])
            if e.kind == 'TEST' and e.d['val'].k == 'term' and e.d['val'].a[0] == 'isinstance':
                exact = False
        t = sorted(types)[-1] if types else 'other'
        if k.k == 'ext' and k.a[0] == 'sqlite3.Binary':
            bev = p.trace[k.a[1]]
            inner = bev.d['args'][0]
            if inner.k == 'param':
                shape = 'binary(key)'
            elif inner.k == 'ext' and inner.a[0] == 'pickletools.optimize':
                shape = 'binary(optimize(dumps(key)))' if 'pickle.dumps' in _ext_names(p.trace) else 'binary(optimize(?))'
            elif inner.k == 'ext' and inner.a[0] == 'pickle.dumps':
                shape = 'binary(dumps(key))'
            else:
                shape = 'binary(?)'
        elif k.k == 'param':
            shape = 'key'
        else:
            shape = '?'
        shapes.setdefault(t if types else 'other', set()).add((shape, raw.val if raw.is_const else '?', exact))
    want = {'bytes': ('binary(key)', True), 'str': ('key', True), 'int': ('key', True), 'float': ('key', True),
            'other': ('binary(optimize(dumps(key)))', False)}
    for t, (shape, raw) in want.items():
        got = shapes.get(t, set())
        ok = bool(got) and all(s == shape and r == raw and ex for s, r, ex in got if not (t == 'other'))
        if t == 'other':
            ok = bool(got) and any(s == shape and r is False for s, r, ex in got)
        if t == 'int':
            # an int outside the int64 guard legitimately takes the pickle branch
            ok = bool(got) and any(s == shape and r is True for s, r, ex in got) and all(
                (s, r) in ((shape, True), want['other']) and ex for s, r, ex in got)
        obs.append(Ob('K4', 'put/%s' % t, ok, 'Disk.put(%s key) must give (%s, raw=%s) by exact type dispatch; found %s'
                      % (t, shape, raw, sorted(map(str, got))), put.loc()))
    # int64 guard on the int branch
    guard = False
    scan = [put.node]
    for n in ast.walk(put.node):
        if isinstance(n, ast.Call) and isinstance(n.func, ast.Name):
            h = ctx.prog.funcs.get('%s.%s' % (put.module, n.func.id))
            if h is not None and h.cls is None:
                scan.append(h.node)         # e.g. a module-level _fits_int64(number)
        if isinstance(n, ast.Call) and (dotted(n.func) or '').startswith('self._'):
            h = ctx.prog.lookup(put.cls, dotted(n.func)[5:]) if put.cls else None
            if h is not None:
                scan.append(h.node)
    for n in [m for root in scan for m in ast.walk(root)]:
        if isinstance(n, ast.Compare) and len(n.ops) == 2 and all(isinstance(o, ast.LtE) for o in n.ops):
            try:
                lo = ctx.fold(n.left, put.module)
                hi = ctx.fold(n.comparators[1], put.module)
                if lo == -2 ** 63 and hi == 2 ** 63 - 1:
                    guard = True
            except Exception:
                pass
    obs.append(Ob('K4', 'put/int64-guard', guard, 'integers outside the signed 64-bit range must be pickled (SQLite would '
                  'reject or round them)', put.loc()))
    # get inverts
    raw_true = raw_false = None
    for p in ctx.paths(get, 'plain'):
        if p.kind != 'return':
            continue
        rawt = [e for e in p.trace if e.kind == 'TEST' and e.d['val'].k == 'param' and e.d['val'].a[0] == 'raw']
        if not rawt:
            continue
        rv = p.outcome[1]
        if rawt[0].d['truth']:
            okp = any(x.k == 'param' and x.a[0] == 'key' for x in values_in(rv)) and 'pickle.load' not in _ext_names(p.trace)
            raw_true = okp if raw_true is None else (raw_true and okp)
        else:
            okp = rv.k == 'ext' and rv.a[0] in ('pickle.load', 'pickle.loads')
            raw_false = okp if raw_false is None else (raw_false and okp)
    obs.append(Ob('K4', 'get/raw-passthrough', bool(raw_true), 'Disk.get(raw=True) must return the database key (bytes '
                  'for BLOB)', get.loc()))
    obs.append(Ob('K4', 'get/unpickle', bool(raw_false), 'Disk.get(raw=False) must unpickle the database key', get.loc()))
    # JSONDisk symmetry
    if 'JSONDisk' in ctx.prog.classes:
        enc = ['json.dumps', 'zlib.compress']
        dec = ['zlib.decompress', 'json.loads']

        def seq_ok(names, want):
            it = iter(names)
            return all(any(n == w for n in it) for w in want)
        for meth, want, sup, guard_read in (('put', enc, 'Disk.put', False), ('get', dec, 'Disk.get', False),
                                            ('store', enc, 'Disk.store', True), ('fetch', dec, 'Disk.fetch', True)):
            f = ctx.prog.classes['JSONDisk'].methods.get(meth)
            if f is None:
                obs.append(Ob('K4', 'JSONDisk.%s' % meth, False, 'JSONDisk.%s missing: the two directions are no '
                              'longer wrapped symmetrically' % meth, 'diskcache/core.py:1'))
                continue
            ok = True
            wit = None
            n = 0
            for p in ctx.paths(f, 'plain'):
                if p.kind != 'return':
                    continue
                names = _ext_names(p.trace)
                sup_calls = [e for e in p.trace if e.kind == 'CALL' and any(t.qual.endswith(sup) for t in e.d['targets'])]
                readt = [e for e in p.trace if e.kind == 'TEST' and any(x.k == 'param' and x.a[0] == 'read'
                                                                       for x in values_in(e.d['val']))]
                is_read = None
                if readt:
                    v = readt[0].d['val']
                    is_read = (not readt[0].d['truth']) if v.k == 'not' else readt[0].d['truth']
                n += 1
                if len(sup_calls) != 1:
                    ok = False
                    wit = fmt_trace(p.trace)
                    continue
                if guard_read and is_read is None:
                    ok = False
                    wit = fmt_trace(p.trace)
                applied = seq_ok(names, want)
                if guard_read and is_read:
                    if any(w in names for w in want):
                        ok = False
                        wit = fmt_trace(p.trace)
                elif not applied:
                    ok = False
                    wit = fmt_trace(p.trace)
                # order relative to the super call: encode before, decode after
                if applied:
                    first = [e for e in p.trace if e.kind == 'EXT' and e.d['name'] == want[0]][0]
                    if (want is enc) != (first.seq < sup_calls[0].seq):
                        ok = False
                        wit = fmt_trace(p.trace)
                    utf = [e for e in p.trace if e.kind == 'MCALL' and e.d['name'] in ('encode', 'decode')]
                    if not utf or not all(e.d['args'] and e.d['args'][0].is_const and
                                          _codec_name(e.d['args'][0].val) == 'utf-8' for e in utf):
                        ok = False
                        wit = fmt_trace(p.trace)
            obs.append(Ob('K4', 'JSONDisk.%s' % meth, ok and n > 0,
                          'JSONDisk.%s does not apply %s around %s (skipped exactly for read=True streams)' %
                          (meth, '+'.join(want), sup), f.loc(), wit))
    return obs


# ---------------------------------------------------------------------- K5
ROW_COLS = ('size', 'mode', 'filename', 'value')


@rule('K5', floor=17, title='decoders and row writers are wired to the right columns of one SELECT / one store call')
def k5(ctx):
    sites = {}

    def note(kind, f, ev, ok, why, tr):
        k = (kind, f.qual, ev.fn.qual, ev.line, ev.node.col_offset)
        info = sites.setdefault(k, {'ok': True, 'why': '', 'wit': None, 'f': f, 'ev': ev, 'kind': kind})
        if not ok:
            info['ok'] = False
            info['why'] = why
            info['wit'] = info['wit'] or fmt_trace(tr)

    for f in core_entries(ctx):
        if f.cls != 'Cache':
            continue
        for p in ctx.paths(f, 'default'):
            if p.kind == 'cut':
                continue
            tr = p.trace
            for ev in tr:
                if ev.kind == 'UNPACK_MISMATCH':
                    note('unpack', f, ev, False, 'tuple unpacking does not match the number of selected columns '
                         '(%s targets, %s columns)' % (ev.d.get('want'), ev.d.get('have')), tr)
                if ev.kind == 'CALL' and any(t.qual.endswith('Disk.fetch') for t in ev.d['targets']):
                    a = ev.d['args']
                    ok = len(a) >= 3 and all(x.k == 'col' for x in a[:3]) and \
                        [x.a[1] for x in a[:3]] == ['mode', 'filename', 'value'] and len({x.a[0] for x in a[:3]}) == 1
                    note('fetch', f, ev, ok, 'Disk.fetch must receive the mode, filename and value columns of one '
                         'SELECT, in that order; got %s' % (a[:3],), tr)
                if ev.kind == 'CALL' and any(t.qual.endswith('Disk.get') for t in ev.d['targets']):
                    a = ev.d['args']
                    ok = len(a) >= 2 and all(x.k == 'col' for x in a[:2]) and \
                        [x.a[1] for x in a[:2]] == ['key', 'raw'] and a[0].a[0] == a[1].a[0]
                    note('keyget', f, ev, ok, 'Disk.get must receive the key and raw columns of one row; got %s' % (a[:2],), tr)
                if ev.kind == 'SQL' and ev.d['stmt'] is not None and (ev.d['stmt'].table or '').lower() == 'cache' \
                        and ev.d['stmt'].kind in ('insert', 'update'):
                    st = ev.d['stmt']
                    params = ev.d.get('params')
                    if params is None or isinstance(params, V):
                        if st.nparams:
                            note('rowwrite', f, ev, False, 'parameters of the row write are not a literal tuple', tr)
                        continue
                    slots = st.slots()
                    if len(slots) != len(params):
                        note('rowwrite', f, ev, False, 'statement has %d placeholders but %d parameters are passed'
                             % (len(slots), len(params)), tr)
                        continue
                    if st.kind == 'insert' and st.insert_cols is not None and len(st.insert_cols) != len(st.values):
                        note('rowwrite', f, ev, False, 'INSERT lists %d columns but %d values' %
                             (len(st.insert_cols), len(st.values)), tr)
                        continue
                    bycol = {}
                    for sl, pv in zip(slots, params):
                        if sl[0] in ('assign', 'value'):
                            bycol[sl[1]] = pv
                        elif sl[0] == 'cmp':
                            bycol['where:' + str(sl[1])] = pv
                    ok, why = True, ''
                    stores = {bycol[c].a[0] for c in ROW_COLS if c in bycol and bycol[c].k == 'storeelt'}
                    for i, c in enumerate(ROW_COLS):
                        if c in bycol:
                            pv = bycol[c]
                            if pv.k == 'storeelt':
                                if pv.a[1] != i:
                                    ok, why = False, 'column %s receives element %d of Disk.store\'s result (%s)' % (
                                        c, pv.a[1], ROW_COLS[pv.a[1]])
                            elif set(bycol) >= set(ROW_COLS):
                                ok, why = False, 'column %s of a full row write does not come from Disk.store' % c
                    if len(stores) > 1:
                        ok, why = False, 'value columns come from different Disk.store calls'
                    if 'key' in bycol and 'raw' in bycol:
                        kv, rv = bycol['key'], bycol['raw']
                        if kv.k == 'putelt' or rv.k == 'putelt':
                            if not (kv.k == 'putelt' and rv.k == 'putelt' and kv.a[0] == rv.a[0] and kv.a[1] == 0
                                    and rv.a[1] == 1):
                                ok, why = False, 'key/raw columns are not the two results of one Disk.put call'
                    for tcol in ('store_time', 'access_time'):
                        if tcol in bycol and set(bycol) >= set(ROW_COLS) and bycol[tcol].k != 'now':
                            ok, why = False, 'column %s of a full row write is not the current time' % tcol
                    if 'access_count' in bycol and set(bycol) >= set(ROW_COLS):
                        if not (bycol['access_count'].is_const and bycol['access_count'].val == 0):
                            ok, why = False, 'a full row write must reset access_count to 0'
                    if set(bycol) >= set(ROW_COLS) and st.kind == 'update':
                        need = {'store_time', 'expire_time', 'access_time', 'access_count', 'tag'} | set(ROW_COLS)
                        missing = sorted(need - set(bycol))
                        if missing:
                            ok, why = False, 'a full overwrite of a row leaves column(s) %s of the OLD item in place ' \
                                             '(an overwritten item must start like a new one)' % missing
                    if st.kind == 'insert' and set(bycol) >= set(ROW_COLS):
                        need = {'key', 'raw', 'store_time', 'expire_time', 'access_time', 'tag'} | set(ROW_COLS)
                        missing = sorted(need - set(bycol))
                        if missing:
                            ok, why = False, 'the row INSERT does not set column(s) %s' % missing
                    if 'where:rowid' in bycol:
                        pv = bycol['where:rowid']
                        if not (pv.k == 'col' and pv.a[1] == 'rowid'):
                            ok, why = False, 'WHERE rowid = ? is not fed by the rowid column of a SELECT'
                    note('rowwrite', f, ev, ok, why, tr)
    obs = []
    ordinal = {}
    for k in sorted(sites):
        info = sites[k]
        base = '%s/%s' % (info['f'].qual.replace('core.', ''), info['kind'])
        if info['kind'] == 'rowwrite':
            base += ':' + _stmt_sig(info['ev'].d['stmt']).split(':')[0]
        ordinal[base] = ordinal.get(base, 0) + 1
        key = base if ordinal[base] == 1 else '%s#%d' % (base, ordinal[base])
        obs.append(Ob('K5', key, info['ok'], info['why'], info['ev'].fn.loc(info['ev'].node), info['wit']))
    return obs


@rule('K6', floor=8, title='every key lookup filters on (key, raw) produced by one Disk.put of the method\'s key')
def k6(ctx):
    sites = {}
    for f in core_entries(ctx):
        if f.cls != 'Cache':
            continue
        for p in ctx.paths(f, 'default'):
            tr = p.trace
            for ev in sql_events(tr, None, 'Cache'):
                st = ev.d['stmt']
                params = ev.d.get('params')
                if params is None or isinstance(params, V) or st.where is None:
                    continue
                slots = st.slots()
                keyslots = [(i, sl) for i, sl in enumerate(slots) if sl[0] == 'cmp' and sl[1] == 'key' and sl[2] == '='
                            and i < len(params)]
                fed_by_put = [(i, sl) for i, sl in keyslots if params[i].k == 'putelt']
                if not fed_by_put:
                    continue
                k = (f.qual, ev.line, ev.node.col_offset)
                info = sites.setdefault(k, {'ok': True, 'why': '', 'wit': None, 'f': f, 'ev': ev})
                i, _ = fed_by_put[0]
                kv = params[i]
                rawslots = [j for j, sl in enumerate(slots) if sl[0] == 'cmp' and sl[1] == 'raw' and sl[2] == '='
                            and j < len(params)]
                ok, why = True, ''
                if not rawslots:
                    ok, why = False, 'the lookup compares `key` but not `raw`: a bytes key equal to another key\'s ' \
                                     'pickle would alias that key'
                else:
                    rv = params[rawslots[0]]
                    if not (rv.k == 'putelt' and rv.a[0] == kv.a[0] and rv.a[1] == 1 and kv.a[1] == 0):
                        ok, why = False, 'key and raw parameters are not the two results of one Disk.put call'
                    # conjunction: both atoms must be AND-ed at top level
                    if not _top_conjunct(st.where, 'key') or not _top_conjunct(st.where, 'raw'):
                        ok, why = False, 'key = ? and raw = ? are not both top-level conjuncts of the WHERE clause'
                pev = tr[kv.a[0]]
                a0 = pev.d['args'][0] if pev.d['args'] else None
                if ok and 'key' in f.params and not (a0 is not None and a0.k == 'param' and a0.a[0] == 'key'):
                    ok, why = False, 'Disk.put is not applied to the method\'s `key` argument'
                if ok and 'key' not in f.params and not (a0 is not None and any(
                        x.k == 'param' for x in deep_values(a0, tr))):
                    # a method with several keys (rename, *_many): the key must still come from the caller
                    ok, why = False, 'Disk.put is not applied to a value supplied by the caller'
                if not ok:
                    info['ok'] = False
                    info['why'] = why
                    info['wit'] = info['wit'] or fmt_trace(tr)
    obs = []
    ordinal = {}
    for k in sorted(sites):
        info = sites[k]
        base = '%s/lookup' % info['f'].qual.replace('core.', '')
        ordinal[base] = ordinal.get(base, 0) + 1
        key = base if ordinal[base] == 1 else '%s#%d' % (base, ordinal[base])
        obs.append(Ob('K6', key, info['ok'], info['why'], info['ev'].fn.loc(info['ev'].node), info['wit']))
    return obs


def _top_conjunct(w, col):
    if w is None:
        return False
    if w[0] == 'and':
        return _top_conjunct(w[1], col) or _top_conjunct(w[2], col)
    return w[0] == 'cmp' and w[1] == '=' and (sqlmod.colname(w[2]) == col or sqlmod.colname(w[3]) == col)


# ---------------------------------------------------------------------- K7
@rule('K7', floor=2, title='Disk serialization is re-entrant: no mutable scratch state on the shared Disk object')
def k7(ctx):
    """One Disk object serves every thread of a Cache and store()/put() run
    outside the write lock: instance attributes may only be configuration."""
    obs = []
    for cname in ('Disk', 'JSONDisk'):
        ci = ctx.prog.classes.get(cname)
        if ci is None:
            continue
        init = ci.methods.get('__init__')
        config, objects = set(), set()
        if init is not None:
            params = set(init.posparams) | set(init.kwonly)
            for n in ast.walk(init.node):
                if isinstance(n, ast.Assign):
                    for t in n.targets:
                        if isinstance(t, ast.Attribute) and isinstance(t.value, ast.Name) and t.value.id == 'self':
                            if isinstance(n.value, ast.Constant) or (isinstance(n.value, ast.Name) and n.value.id in params):
                                config.add(t.attr)
                            else:
                                objects.add(t.attr)
        bad = []
        for mname, m in ci.methods.items():
            if mname == '__init__':
                continue
            for n in ast.walk(m.node):
                if isinstance(n, ast.Attribute) and isinstance(n.value, ast.Name) and n.value.id == 'self':
                    if isinstance(n.ctx, (ast.Store, ast.Del)):
                        bad.append((m, n, 'assigns self.%s' % n.attr))
                    elif n.attr in objects:
                        bad.append((m, n, 'uses the shared object self.%s' % n.attr))
                if isinstance(n, (ast.Global, ast.Nonlocal)):
                    bad.append((m, n, 'uses global state'))
        # module-level mutable caches used by the class (functools.lru_cache on helpers called from it)
        obs.append(Ob('K7', '%s/no-shared-scratch-state' % cname, not bad,
                      '%s: the Disk object is shared by all threads and its store/put run outside the write lock; a '
                      'scratch buffer or per-call state on the instance lets two overlapping calls mix their data' %
                      '; '.join('%s %s' % (m.qual, w) for m, n, w in bad[:4]),
                      bad[0][0].loc(bad[0][1]) if bad else 'diskcache/core.py:1'))
    # no memoisation of key/value serialisation (equal-but-different-type keys would share an entry)
    bad = []
    for f in ctx.prog.all_funcs():
        if f.module != 'core':
            continue
        if any('lru_cache' in d or d.endswith('.cache') or d == 'cache' for d in f.decorators):
            bad.append(f)
    obs.append(Ob('K7', 'core/no-memoised-serialisation', not bad,
                  'functions of core.py are memoised by equality (%s): keys that compare equal but differ in type '
                  '(1, 1.0, True inside a tuple) would be serialised as one another' % ', '.join(f.qual for f in bad),
                  bad[0].loc() if bad else 'diskcache/core.py:1'))
    return obs
