"""D rules: the Django cache backend adapter."""
import ast

from .framework import rule, Ob, fmt_trace, values_in, real_call
from .model import AnalysisError, walk_shallow, dotted
from .values import V


def _made_key(trace, v):
    """Is v the result of self.make_key(key, version=version)?"""
    if v.k != 'ucall':
        return False
    ev = trace[v.a[0]]
    c = ev.d['callee']
    if not (c.k == 'selfattr' and c.a[1] == 'make_key'):
        return False
    a = ev.d['args']
    kw = ev.d['kwargs']
    ver = kw.get('version') or (a[1] if len(a) > 1 else None)
    return bool(a) and a[0].k == 'param' and a[0].a[0] == 'key' and ver is not None and ver.k == 'param' \
        and ver.a[0] == 'version'


@rule('D1', floor=9, title='every DjangoCache key goes downstream as make_key(key, version=version) and only so')
def d1(ctx):
    obs = []
    ci = ctx.prog.classes['DjangoCache']
    for name, f in sorted(ci.methods.items()):
        if 'key' not in f.params:
            continue
        if name.startswith('_') and not name.startswith('__'):
            continue        # private helper: judged inlined into the public methods that use it
        if name == 'reset':
            continue        # `key` names a setting, not an item
        ok, why, wit = True, '', None
        n = 0
        for p in ctx.paths(f, 'default'):
            if p.kind == 'cut':
                continue
            for e in p.trace:
                if not real_call(e):
                    continue
                tg = e.d['targets']
                if all(t.cls == 'FanoutCache' for t in tg) and any('key' in t.params for t in tg):
                    n += 1
                    a = e.d['args']
                    kv = a[0] if a else e.d['kwargs'].get('key')
                    if kv is None or not _made_key(p.trace, kv):
                        ok, why, wit = False, 'passes %r to FanoutCache.%s instead of make_key(key, version=version)' % (
                            kv, e.d['name']), fmt_trace(p.trace)
                elif all(t.cls == 'DjangoCache' for t in tg) and any('key' in t.params for t in tg):
                    # delegation to another method of the adapter: raw key plus version
                    n += 1
                    a = e.d['args']
                    t = tg[0]
                    kv = a[0] if a else e.d['kwargs'].get('key')
                    vi = t.params.index('version') if 'version' in t.params else None
                    ver = e.d['kwargs'].get('version') or (a[vi] if vi is not None and vi < len(a) else None)
                    if not (kv is not None and kv.k == 'param' and kv.a[0] == 'key' and ver is not None
                            and ver.k == 'param' and ver.a[0] == 'version'):
                        ok, why, wit = False, 'delegates to %s without its key and version' % t.qual, fmt_trace(p.trace)
        obs.append(Ob('D1', 'DjangoCache.%s' % name, ok and n > 0, why or 'no downstream call found', f.loc(), wit))
    return obs


@rule('D2', floor=6, title='timeouts become expiry through get_backend_timeout: default marker, None=forever, 0/negative=expired')
def d2(ctx):
    obs = []
    ci = ctx.prog.classes['DjangoCache']
    for name in ('add', 'set', 'touch'):
        f = ci.methods.get(name)
        if f is None:
            raise AnalysisError('anchor vanished: DjangoCache.%s' % name)
        ok, n, wit = True, 0, None
        for p in ctx.paths(f, 'default'):
            for e in p.trace:
                if real_call(e) and all(t.cls == 'FanoutCache' for t in e.d['targets']):
                    t = e.d['targets'][0]
                    if 'expire' not in t.params:
                        continue
                    n += 1
                    i = t.params.index('expire')
                    a = e.d['args']
                    ev = e.d['kwargs'].get('expire') or (a[i] if i < len(a) else None)
                    good = False
                    if ev is not None and ev.k == 'ret' and any(q.endswith('get_backend_timeout') for q in ev.a[1]):
                        cev = p.trace[ev.a[0]]
                        tv = cev.d['kwargs'].get('timeout') or (cev.d['args'][0] if cev.d['args'] else None)
                        good = tv is not None and tv.k == 'param' and tv.a[0] == 'timeout'
                    if not good:
                        ok, wit = False, fmt_trace(p.trace)
        obs.append(Ob('D2', 'DjangoCache.%s/timeout-converted' % name, ok and n > 0,
                      'the `timeout` argument reaches the cache as expire without get_backend_timeout(timeout=timeout)',
                      f.loc(), wit))
    g = ci.methods.get('get_backend_timeout')
    if g is None:
        raise AnalysisError('anchor vanished: DjangoCache.get_backend_timeout')
    res = {'default-marker': [False, True], 'none-is-forever': [False, True], 'zero-not-forever': [True, True],
           'other-unchanged': [False, True]}
    wit = None
    for p in ctx.paths(g, 'plain'):
        if p.kind != 'return':
            continue
        rv = p.outcome[1]
        is_default = any(e.kind == 'TEST' and e.d['truth'] and e.d['val'].k == 'cmp' and e.d['val'].a[0] == ('Eq',)
                         and any(x.k in ('extfn', 'modconst', 'global') or (x.is_const and x.val == 300)
                                 for x in e.d['val'].a[1]) for e in p.trace)
        is_zero = any(e.kind == 'TEST' and e.d['truth'] and e.d['val'].k == 'cmp' and e.d['val'].a[0] == ('Eq',)
                      and any(x.is_const and x.val == 0 and not isinstance(x.val, bool) for x in e.d['val'].a[1])
                      for e in p.trace)
        t = V('param', 'timeout', 'djangocache')
        known_none = p.st.facts.get(('none', t))
        if is_default:
            good = any(x.k == 'selfattr' and x.a[1] == 'default_timeout' for x in values_in(rv)) or \
                (rv.is_const and rv.val is None)
            res['default-marker'][0] = True
            if not any(x.k == 'selfattr' and x.a[1] == 'default_timeout' for x in values_in(rv)) and not (
                    rv.is_const and rv.val is None and _none_of(p, 'default_timeout')):
                res['default-marker'][1] = False
                wit = fmt_trace(p.trace)
        elif is_zero:
            if rv.is_const and (rv.val is None or (isinstance(rv.val, (int, float)) and rv.val > 0)):
                res['zero-not-forever'][1] = False
                wit = fmt_trace(p.trace)
        else:
            if rv.is_const and rv.val is None:
                res['none-is-forever'][0] = True
                if known_none is not True:
                    res['none-is-forever'][1] = False
                    wit = fmt_trace(p.trace)
            elif rv == t:
                res['other-unchanged'][0] = True
                # returning the argument unchanged also passes None through
                if known_none is not False:
                    res['none-is-forever'][0] = True
            else:
                res['other-unchanged'][1] = False
                wit = fmt_trace(p.trace)
    msgs = {'default-marker': 'the DEFAULT_TIMEOUT marker is not replaced by self.default_timeout',
            'none-is-forever': 'None (forever) is not passed through as None, or None is produced for a non-None timeout',
            'zero-not-forever': 'a timeout of 0 is converted to None/positive: "already expired" becomes "forever"',
            'other-unchanged': 'an ordinary timeout is altered'}
    for k, (seen, ok) in res.items():
        obs.append(Ob('D2', 'get_backend_timeout/' + k, seen and ok, msgs[k], g.loc(), wit if not (seen and ok) else None))
    return obs


def _none_of(p, attr):
    for (k, v), t in p.st.facts.items() if False else []:
        pass
    for key, val in p.st.facts.items():
        if key[0] == 'none' and key[1].k == 'selfattr' and key[1].a[1] == attr and val is True:
            return True
    return False


@rule('D3', floor=4, title='incr turns a missing key into ValueError; decr negates and delegates; default is None')
def d3(ctx):
    ci = ctx.prog.classes['DjangoCache']
    incr, decr = ci.methods.get('incr'), ci.methods.get('decr')
    if incr is None or decr is None:
        raise AnalysisError('anchor vanished: DjangoCache.incr/decr')
    conv = False
    leaks = False
    for p in ctx.paths(incr, 'default'):
        caught = [e for e in p.trace if e.kind == 'CATCH' and e.d['typ'] == 'KeyError']
        if caught:
            if p.kind == 'raise' and p.raised() == 'ValueError':
                conv = True
            else:
                leaks = True
    obs = [Ob('D3', 'DjangoCache.incr/keyerror-to-valueerror', conv and not leaks,
              'incr on a missing/expired key does not raise ValueError as the Django contract requires', incr.loc())]
    d = incr.defaults.get('default')
    obs.append(Ob('D3', 'DjangoCache.incr/default-none', isinstance(d, ast.Constant) and d.value is None,
                  'incr must default to default=None so that a missing key is an error, not an implicit 0', incr.loc()))
    d = decr.defaults.get('default')
    obs.append(Ob('D3', 'DjangoCache.decr/default-none', isinstance(d, ast.Constant) and d.value is None,
                  'decr must default to default=None', decr.loc()))
    ok = False
    for p in ctx.paths(decr, 'plain'):
        for e in p.trace:
            if e.kind == 'CALL' and e.d['name'] == 'incr':
                a = e.d['args']
                t = e.d['targets'][0]
                i = t.params.index('delta')
                dv = e.d['kwargs'].get('delta') or (a[i] if i < len(a) else None)
                ok = dv is not None and dv.k == 'term' and dv.a[0] == 'neg' and dv.a[1][0].k == 'param' and \
                    dv.a[1][0].a[0] == 'delta'
    obs.append(Ob('D3', 'DjangoCache.decr/negates', ok, 'decr does not call incr with -delta', decr.loc()))
    # has_key uses membership of the made key
    hk = ci.methods.get('has_key')
    ok = False
    if hk is not None:
        for p in ctx.paths(hk, 'plain'):
            for e in p.trace:
                if e.kind == 'CALL' and e.d['name'] == '__contains__' and e.d['args'] and _made_key(p.trace, e.d['args'][0]):
                    ok = True
    obs.append(Ob('D3', 'DjangoCache.has_key/made-key', ok, 'has_key does not test membership of make_key(key, version)',
                  hk.loc() if hk else ''))
    return obs


@rule('D4', floor=8, title='every DjangoCache data method reaches the underlying cache on every return path (no shortcut that skips the operation)')
def d4(ctx):
    obs = []
    ci = ctx.prog.classes['DjangoCache']
    for name in ('add', 'get', 'set', 'touch', 'pop', 'delete', 'incr', 'decr', 'has_key', 'read'):
        f = ci.methods.get(name)
        if f is None:
            raise AnalysisError('anchor vanished: DjangoCache.%s' % name)
        ok, wit, n = True, None, 0
        for p in ctx.paths(f, 'default'):
            if p.kind not in ('return', 'next'):
                continue
            n += 1
            down = [e for e in p.trace if real_call(e) and
                    all(t.cls in ('FanoutCache', 'DjangoCache') for t in e.d['targets']) and
                    e.d['targets'][0].name not in ('get_backend_timeout', 'make_key')]
            if len(down) != 1:
                ok, wit = False, fmt_trace(p.trace)
            elif p.kind == 'return':
                rv = p.outcome[1]
                dv = V('ret', down[0].seq, tuple(sorted(t.qual for t in down[0].d['targets'])))
                if rv != dv:
                    ok, wit = False, fmt_trace(p.trace)
        obs.append(Ob('D4', 'DjangoCache.%s/always-delegates' % name, ok and n > 0,
                      'DjangoCache.%s has a return path that does not perform exactly one operation on the underlying '
                      'cache and return its result (e.g. a shortcut for "already expired" timeouts that leaves an '
                      'existing live value in place)' % name, f.loc(), wit))
    # maintenance methods: an adapter method named like a FanoutCache method performs that operation
    fc = ctx.prog.classes['FanoutCache']
    data = {'add', 'get', 'set', 'touch', 'pop', 'delete', 'incr', 'decr', 'has_key', 'read', 'memoize'}
    for name, f in sorted(ci.methods.items()):
        if name.startswith('_') or name in data or name not in fc.methods or f.is_property:
            continue
        ok, wit, n = True, None, 0
        for p in ctx.paths(f, 'default'):
            if p.kind not in ('return', 'next'):
                continue
            n += 1
            down = [e for e in p.trace if e.kind == 'CALL' and any(t.cls == 'FanoutCache' and t.name == name
                                                                     for t in e.d['targets'])]
            if not down:
                ok, wit = False, fmt_trace(p.trace)
        obs.append(Ob('D4', 'DjangoCache.%s/delegates' % name, ok and n > 0,
                      'DjangoCache.%s has a path that does not call FanoutCache.%s: the adapter method silently does '
                      'nothing' % (name, name), f.loc(), wit))
    return obs
