"""E rules: eviction policy, who may delete rows, budgets, accounting."""
import ast

from .framework import rule, Ob, fmt_trace, sql_events, call_events, values_in, role_of, within
from .model import AnalysisError, walk_shallow, dotted
from .values import V
from .interp import Interp
from .rules_lock import core_entries, _is_row_write, _stmt_sig, helper_roles, bind_roles
from . import sql as sqlmod


def policy_table(ctx):
    e, m = ctx.prog.const_expr('core', 'EVICTION_POLICY')
    if e is None:
        raise AnalysisError('anchor vanished: EVICTION_POLICY')
    try:
        return Interp(ctx.prog).fold(e, 'core')
    except ValueError as ex:
        raise AnalysisError('EVICTION_POLICY is not a constant table: %s' % ex)


@rule('E1', floor=4, title='policy table coherence: cull order column = get-updated column = indexed column; none has no cull')
def e1(ctx):
    pol = policy_table(ctx)
    obs = []
    loc = 'diskcache/core.py:%d' % ctx.prog.modules['core'].consts['EVICTION_POLICY'].lineno
    promised = {'least-recently-stored': 'store_time', 'least-recently-used': 'access_time',
                'least-frequently-used': 'access_count'}
    for name, ent in sorted(pol.items()):
        cull, get, init = ent.get('cull'), ent.get('get'), ent.get('init')
        if name == 'none':
            obs.append(Ob('E1', 'none', cull is None and get is None and init is None,
                          "policy 'none' must have no cull statement: Deque and Index rely on it never evicting", loc))
            continue
        if cull is None:
            obs.append(Ob('E1', name, False, 'policy has no cull statement', loc))
            continue
        st = sqlmod.parse(cull.replace('{fields}', 'rowid').replace('{now}', '0'))
        ok, why = True, ''
        documented = name in promised
        if st.kind != 'select' or (st.table or '').lower() != 'cache' or not st.order or st.where is not None:
            ok, why = False, 'cull statement is not `SELECT {fields} FROM Cache ORDER BY <col> ... LIMIT ?`'
        elif documented and len(st.order) != 1:
            ok, why = False, 'cull statement of a documented policy orders by more than its one promised column'
        else:
            col = sqlmod.colname(st.order[0][0])
            if documented and st.order[0][1] != 'ASC':
                ok, why = False, 'cull order is descending: the newest/most used items would be evicted first'
            elif st.limit is None or st.limit[0] != 'param':
                ok, why = False, 'cull statement has no LIMIT ? (the per-write budget cannot be applied)'
            elif '{fields}' not in cull:
                ok, why = False, 'cull statement has no {fields} hole'
            elif 'RANDOM(' in cull.upper().replace(' ', ''):
                ok, why = False, 'the cull statement is evaluated twice per cull (file names, then rows): a ' \
                                 'non-deterministic order picks different rows each time'
            elif documented and col != promised[name]:
                ok, why = False, 'policy %s culls by %s, documented order is by %s' % (name, col, promised[name])
            else:
                refreshed = col in ('access_time', 'access_count')
                if not refreshed:
                    # a policy ordered by a column that reads do not change (store_time, size, ...) rewrites nothing on get
                    if get is not None and documented:
                        ok, why = False, 'a store-time policy must not rewrite anything on get'
                else:
                    g = sqlmod.parse('UPDATE Cache SET %s WHERE rowid = ?' % (get or '').replace('{now}', '0'))
                    if get is None or g.kind != 'update' or [c for c, _ in g.assigns] != [col]:
                        ok, why = False, 'the get-time update %r does not refresh the cull column %s' % (get, col)
                    elif col == 'access_count':
                        ex = g.assigns[0][1]
                        if not (ex[0] == 'binop' and ex[1] == '+' and sqlmod.colname(ex[2]) == col and ex[3] == ('num', 1)):
                            ok, why = False, 'access_count is not incremented by one on get'
                    elif col == 'access_time' and '{now}' not in get:
                        ok, why = False, 'access_time is not set to {now} on get'
                ist = sqlmod.parse(init or '')
                if ok and documented and (ist.kind != 'create_index' or ist.index_cols[:1] != [col]):
                    ok, why = False, 'the policy index %r does not lead with the cull column %s' % (init, col)
                if ok and not documented and init is not None and ist.kind != 'create_index':
                    ok, why = False, 'the init statement of the policy is not a CREATE INDEX'
        obs.append(Ob('E1', name, ok, why, loc))
    return obs


# ---------------------------------------------------------------------- E2
E2_TEMPLATE = {
    'core.Cache.pop': 'explicit', 'core.Cache.__delitem__': 'explicit', 'core.Cache.pull': 'explicit-head',
    'core.Cache.peek': 'expired-head', 'core.Cache.peekitem': 'expired-head',
    '<cull>': 'lazy', 'core.Cache.cull': 'size', '<bulk>': 'bulk',
    'core.Cache.check': 'repair',
}


E2_ROLES = {}


def _same_helper(a, b):
    """Both events belong to the activation of the same role function (the lazy cull helper, cull(), ...)."""
    ra = [q for q in ((a.fn.qual,) + tuple(reversed(a.stack))) if q in E2_ROLES]
    rb = [q for q in ((b.fn.qual,) + tuple(reversed(b.stack))) if q in E2_ROLES]
    return bool(ra) and bool(rb) and ra[0] == rb[0]


def _volume_reads(ev):
    """Trace indices of the statements the compared volume value was read by."""
    v = ev.d['val']
    while v.k == 'not':
        v = v.a[0]
    if v.k != 'cmp':
        return []
    return sorted({x.a[0] for x in values_in(v) if x.k == 'col'})


def _volume_test(ev):
    """If TEST compares volume() with self.size_limit: set of orderings (vol ? limit) under which the assumed branch is taken."""
    v = ev.d['val']
    neg = False
    while v.k == 'not':
        v = v.a[0]
        neg = not neg
    if v.k != 'cmp' or len(v.a[0]) != 1 or v.a[0][0] not in ('Lt', 'LtE', 'Gt', 'GtE'):
        return None
    a, b = v.a[1]

    def is_lim(x):
        return x.k == 'selfattr' and x.a[1] == 'size_limit'

    def is_vol(x):
        return any(y.k == 'col' for y in values_in(x)) or (x.k == 'ret' and any(q.endswith('.volume') for q in x.a[1]))
    if is_lim(b) and is_vol(a):
        flip = False
    elif is_lim(a) and is_vol(b):
        flip = True
    else:
        return None
    op = v.a[0][0]
    truth = ev.d['truth'] != neg
    out = set()
    for c, d in (('<', -1), ('=', 0), ('>', 1)):
        d2 = -d if flip else d
        r = {'Lt': d2 < 0, 'LtE': d2 <= 0, 'Gt': d2 > 0, 'GtE': d2 >= 0}[op]
        if r == truth:
            out.add(c)
    return out


@rule('E2', floor=11, title='who may delete rows, and under which guard (explicit removal, expiry, size eviction at the limit, repair)')
def e2(ctx):
    E2_ROLES.clear()
    E2_ROLES.update(bind_roles(ctx, E2_TEMPLATE))
    sites = {}
    for f in core_entries(ctx):
        if f.cls != 'Cache':
            continue
        for p in ctx.paths(f, 'default'):
            tr = p.trace
            for ev in sql_events(tr, 'delete', 'Cache'):
                st = ev.d['stmt']
                role = role_of(ev, E2_ROLES)
                params = ev.d.get('params')
                plist = [] if params is None or isinstance(params, V) else list(params)
                # sub-role inside the lazy cull helper: expiry statement or policy statement
                sub = role
                if role == 'lazy':
                    sub = 'lazy-expired' if isinstance(st.subselect, sqlmod.Stmt) and st.subselect.where is not None \
                        and sqlmod.mentions_col(st.subselect.where, 'expire_time') else 'lazy-size'
                if role == 'bulk':
                    sub = 'bulk<-' + f.name
                k = (ev.fn.qual, ev.line, ev.node.col_offset, sub)
                info = sites.setdefault(k, {'ok': True, 'why': '', 'wit': None, 'ev': ev, 'f': f, 'role': sub, 'n': 0})
                info['n'] += 1
                ok, why = True, ''
                before = tr[:ev.seq]
                if role is None:
                    # a function outside the table (new API): judged by form - it may only remove the very row it
                    # selected by a caller-supplied key in the same block
                    role = 'explicit'
                if role in ('explicit', 'explicit-head', 'expired-head'):
                    w = st.where
                    good = w is not None and w[0] == 'cmp' and w[1] == '=' and sqlmod.colname(w[2]) == 'rowid' and \
                        plist and plist[0].k == 'col' and plist[0].a[1] == 'rowid'
                    if not good:
                        ok, why = False, 'the DELETE is not restricted to the rowid of the row just selected'
                    elif role == 'expired-head':
                        from .rules_expiry import _py_atom_cases, CASES, EXPIRED
                        sel = plist[0].a[0]
                        cases = set(CASES)
                        seen = False
                        for e in tr[sel:ev.seq]:
                            if e.kind != 'TEST':
                                continue
                            b = _py_atom_cases(e)
                            if b is not None and b[0] == 'atom' and b[1] == sel:
                                seen = True
                                s_ = b[2] if e.d['truth'] else ((set(CASES) if b[3] else {'<', '=', '>'}) - b[2])
                                if not b[3]:
                                    cases -= {'NULL'}
                                cases &= s_
                        if not seen or not cases <= EXPIRED:
                            ok, why = False, 'a peek deletes the head row without having established that it is ' \
                                             'expired (possible expire_time cases: %s)' % sorted(cases)
                    elif role == 'explicit':
                        sst = tr[plist[0].a[0]].d['stmt']
                        sl = sst.slots()
                        if not any(s[0] == 'cmp' and s[1] == 'key' for s in sl):
                            ok, why = False, 'the deleted row was not selected by the caller\'s key'
                elif sub == 'lazy-expired':
                    pass   # predicate verified by X1 (removal role)
                elif sub == 'lazy-size' or role == 'size':
                    vts = [(e, _volume_test(e)) for e in before if e.kind == 'TEST']
                    vts = [(e, x) for e, x in vts if x is not None]
                    vt = [x for _, x in vts]
                    if not vt:
                        ok, why = False, 'size eviction is not preceded by a comparison of volume() with size_limit'
                    else:
                        allowed = vt[-1]
                        reads = _volume_reads(vts[-1][0])
                        writes = [e.seq for e in before if e.kind == 'SQL' and _is_row_write(e)
                                  and (e.d['stmt'].table or '').lower() == 'cache' and _same_helper(e, ev)]
                        if reads and writes and min(reads) < max(writes):
                            ok, why = False, 'the volume compared with size_limit was measured BEFORE rows were ' \
                                             'removed in this call (stale): eviction can run although the cache is ' \
                                             'already below its limit'
                        if role == 'size':
                            if allowed != {'>'}:
                                ok, why = False, 'cull() evicts when volume %s size_limit; it must continue only ' \
                                                 'while volume > size_limit' % '/'.join(sorted(allowed))
                        elif '<' in allowed or '>' not in allowed:
                            ok, why = False, 'a write evicts by policy when volume %s size_limit: eviction must start ' \
                                             'only once the limit has been reached' % '/'.join(sorted(allowed))
                    if isinstance(st.subselect, sqlmod.Stmt) and st.subselect.where is not None:
                        ok, why = False, 'policy eviction statement carries a WHERE clause'
                elif role == 'bulk':
                    sel = None
                    for e in reversed(before):
                        if e.kind == 'SQL' and e.d['stmt'] is not None and e.d['stmt'].kind == 'select' and \
                                e.d['inst'] == ev.d['inst']:
                            sel = e
                            break
                    if sel is None:
                        ok, why = False, 'bulk DELETE without a SELECT in the same block'
                    else:
                        sst = sel.d['stmt']
                        sp = sel.d.get('params')
                        sp = [] if sp is None or isinstance(sp, V) else list(sp)
                        if f.name == 'evict':
                            sl = sst.slots()
                            idx = [i for i, s in enumerate(sl) if s[0] == 'cmp' and s[1] == 'tag' and s[2] == '=']
                            if not idx or not (idx[0] < len(sp) and sp[idx[0]].k == 'param' and sp[idx[0]].a[0] == 'tag'):
                                ok, why = False, 'evict does not restrict the rows to `tag = ?` bound to its argument'
                            elif not _conj(sst.where, 'tag'):
                                ok, why = False, '`tag = ?` is not a top-level conjunct'
                        elif f.name == 'expire':
                            if not sqlmod.mentions_col(sst.where, 'expire_time'):
                                ok, why = False, 'expire removes rows without an expire_time predicate'
                        elif f.name == 'clear':
                            pass
                        else:
                            ok, why = False, 'bulk deleter called from %s, which is not evict/expire/clear' % f.qual
                elif role == 'repair':
                    fix = any(e.kind == 'TEST' and e.d['val'].k == 'param' and e.d['val'].a[0] == 'fix' and e.d['truth']
                              for e in before)
                    missing = any(e.kind == 'TEST' and e.d['val'].k == 'ext' and e.d['val'].a[0] == 'os.path.exists'
                                  and not e.d['truth'] for e in before)
                    if not (fix and missing):
                        ok, why = False, 'check() deletes a row without `fix` being set and its file being known missing'
                if not ok:
                    info['ok'] = False
                    info['why'] = why
                    info['wit'] = info['wit'] or fmt_trace(tr)
    # implicit deletes: INSERT OR REPLACE on Cache removes the conflicting row behind the back of the file cleanup
    implicit = []
    for f in core_entries(ctx):
        if f.cls != 'Cache':
            continue
        for p in ctx.paths(f, 'default'):
            for ev in sql_events(p.trace, 'insert', 'Cache'):
                if ev.d['stmt'].conflict == 'replace':
                    implicit.append(ev)
    obs = []
    obs.append(Ob('E2', 'no-implicit-delete', not implicit,
                  'INSERT OR REPLACE INTO Cache deletes the existing row implicitly: its value file is never released, '
                  'its rowid (insertion order of Index, iteration order) changes and no removal rule classifies it',
                  implicit[0].fn.loc(implicit[0].node) if implicit else ''))
    for k in sorted(sites):
        info = sites[k]
        key = '%s/%s' % (info['ev'].fn.qual.replace('core.', ''), info['role'])
        n = sum(1 for o in obs if o.key.split('#')[0] == key)
        if n:
            key += '#%d' % (n + 1)
        obs.append(Ob('E2', key, info['ok'], info['why'], info['ev'].fn.loc(info['ev'].node), info['wit']))
    return obs


def _conj(w, col):
    if w is None:
        return False
    if w[0] == 'and':
        return _conj(w[1], col) or _conj(w[2], col)
    return w[0] == 'cmp' and (sqlmod.colname(w[2]) == col or sqlmod.colname(w[3]) == col)


# ---------------------------------------------------------------------- E3
def _cull_helper(ctx):
    """The function that executes the policy's cull statement inside a caller's transaction (receives sql)."""
    f = helper_roles(ctx).get('cull')
    if f is not None:
        return f
    raise AnalysisError('anchor vanished: cull helper')


@rule('E3', floor=3, title='per-write budget: cull_limit 0 removes nothing; expired + evicted rows together never exceed cull_limit')
def e3(ctx):
    h = _cull_helper(ctx)
    caller = ctx.method('Cache', 'set')
    ok0, okb, oklim = True, True, True
    wit0 = witb = witl = None
    n = 0
    nb = 0
    for p in ctx.paths(caller, 'default'):
        if p.kind == 'cut':
            continue
        dels = [e for e in sql_events(p.trace, 'delete', 'Cache') if within(e, h.qual)]
        if not dels:
            continue
        n += 1
        first = dels[0]
        zero_tests = [e for e in p.trace[:first.seq] if within(e, h.qual) and e.kind == 'TEST' and e.d['val'].k == 'cmp'
                      and e.d['val'].a[0] == ('Eq',) and any(x.is_const and x.val == 0 for x in e.d['val'].a[1])
                      and not e.d['truth']]
        if not zero_tests:
            ok0 = False
            wit0 = fmt_trace(p.trace)
        # every DELETE is limited
        lims = []
        for d in dels:
            st = d.d['stmt']
            sub = st.subselect
            params = d.d.get('params')
            if not isinstance(sub, sqlmod.Stmt) or sub.limit is None or sub.limit[0] != 'param' or params is None \
                    or isinstance(params, V):
                oklim = False
                witl = fmt_trace(p.trace)
                lims.append(None)
                continue
            lims.append(params[sub.limit[1]] if sub.limit[1] < len(params) else None)
        if len(dels) == 2 and all(x is not None for x in lims):
            nb += 1
            l1, l2 = lims
            # rows removed by the first statement: rows of its sibling select
            sel1 = None
            for e in reversed(p.trace[:dels[0].seq]):
                if e.kind == 'SQL' and e.d['stmt'] is not None and e.d['stmt'].kind == 'select' and within(e, h.qual):
                    sel1 = e
                    break
            want = V('term', 'Sub', (l1, V('term', 'len', (V('rows', sel1.seq),)))) if sel1 is not None else None
            if l2 != want:
                okb = False
                witb = fmt_trace(p.trace)
    loc = h.loc()
    return [
        Ob('E3', 'zero-budget-removes-nothing', ok0 and n > 0, 'the lazy cull deletes rows on a path where cull_limit '
           'was not tested against 0', loc, wit0),
        Ob('E3', 'every-delete-limited', oklim and n > 0, 'a lazy-cull DELETE is not bounded by LIMIT ? ', loc, witl),
        Ob('E3', 'second-limit-is-remaining-budget', okb and nb > 0,
           'after removing expired rows the policy eviction is not limited to cull_limit minus the rows already '
           'removed: one write can remove up to twice cull_limit items', loc, witb),
    ]


# ---------------------------------------------------------------------- E4
E4_FUNCS = ('evict', 'expire', 'clear', 'cull')


def _required_counts(p):
    """Values a bulk-removal result must account for on this path."""
    req = []
    tr = p.trace
    exited = {e.d['inst'] for e in tr if e.kind == 'TXN_EXIT_OK'}
    for ev in sql_events(tr, 'delete', 'Cache'):
        if ev.d['inst'] not in exited:
            continue
        sel = None
        for e in reversed(tr[:ev.seq]):
            if e.kind == 'SQL' and e.d['stmt'] is not None and e.d['stmt'].kind == 'select' and e.d['inst'] == ev.d['inst']:
                sel = e
                break
        if sel is not None:
            req.append(('rows', V('term', 'len', (V('rows', sel.seq),)), ev))
    for ev in tr:
        if ev.kind == 'CALL' and not ev.d.get('inlined') and any(
                t.cls == 'Cache' and t.name in E4_FUNCS for t in ev.d['targets']):
            nxt = tr[ev.seq + 1] if ev.seq + 1 < len(tr) else None
            if nxt is not None and nxt.kind == 'RAISE' and nxt.d.get('call') == ev.seq:
                continue
            req.append(('call', V('ret', ev.seq, tuple(sorted(t.qual for t in ev.d['targets']))), ev))
    return req


@rule('E4', floor=4, title='bulk removals return (and carry in Timeout) the count of every item they removed')
def e4(ctx):
    obs = []
    for name in E4_FUNCS:
        f = ctx.method('Cache', name)
        okr, okt = True, True
        witr = witt = None
        nr = nt = 0
        for p in ctx.paths(f, 'plain3'):
            if p.kind == 'cut':
                continue
            req = _required_counts(p)
            if p.kind == 'return':
                res = p.outcome[1]
                nr += 1
                have = set(values_in(res))
                missing = [r for r in req if r[1] not in have]
                if missing:
                    okr = False
                    witr = fmt_trace(p.trace)
            elif p.kind == 'raise' and p.raised() == 'Timeout':
                data = p.outcome[1].data
                if not req:
                    continue
                nt += 1
                have = set()
                for d in (data or []):
                    have |= set(values_in(d))
                missing = [r for r in req if r[1] not in have]
                if missing:
                    okt = False
                    witt = fmt_trace(p.trace)
        # a nested bulk removal that times out carries its own partial count: it must not be dropped
        okn, witn = True, None
        for p in ctx.paths(f, 'default'):
            if p.kind == 'cut':
                continue
            tr = p.trace
            for i, e in enumerate(tr):
                if e.kind == 'CALL' and not e.d.get('inlined') and any(
                        t.cls == 'Cache' and t.name in E4_FUNCS for t in e.d['targets']):
                    nxt = tr[i + 1] if i + 1 < len(tr) else None
                    if nxt is not None and nxt.kind == 'RAISE' and nxt.d.get('call') == e.seq and \
                            nxt.d.get('typ') == 'Timeout':
                        caught = any(x.kind == 'CATCH' and x.d['typ'] == 'Timeout' for x in tr[i + 2:i + 4])
                        if not caught:
                            continue
                        if p.kind == 'raise' and p.raised() == 'Timeout':
                            data = p.outcome[1].data or []
                            has_exc = any(x.k == 'exc' for d in data for x in values_in(d))
                            if not has_exc and not p.outcome[1].hyp:
                                okn, witn = False, fmt_trace(tr)
                        elif p.kind == 'return':
                            # swallowing the Timeout is fine when the count it carries goes into the result
                            # (retrying the nested removal and adding timeout.args[0])
                            carried = any(x.k == 'attr' and x.a[1] == 'args' and x.a[0].k == 'exc'
                                          for x in values_in(p.outcome[1]))
                            if not carried:
                                okn, witn = False, fmt_trace(tr)
        obs.append(Ob('E4', 'Cache.%s/nested-timeout-count-kept' % name, okn,
                      'a Timeout raised by a nested bulk removal (which carries the number of items that call had '
                      'already removed) is caught and replaced by a Timeout/return that drops that number', f.loc(), witn))
        obs.append(Ob('E4', 'Cache.%s/return-counts-everything' % name, okr and nr > 0,
                      'a return path yields a value that does not include every batch of rows removed (or the count '
                      'returned by expire()) on that path', f.loc(), witr))
        obs.append(Ob('E4', 'Cache.%s/timeout-carries-count' % name, okt and nt > 0,
                      'Timeout raised after some rows were removed does not carry the number removed so far',
                      f.loc(), witt))
    return obs


# ---------------------------------------------------------------------- E5
@rule('E5', floor=2, title='recency/frequency refresh: get and incr apply the policy\'s get-update to the row in the same block')
def e5(ctx):
    pol = policy_table(ctx)
    obs = []
    for name in ('get', 'incr'):
        f = ctx.method('Cache', name)
        ok = True
        wit = None
        n = 0
        for p in ctx.paths(f, 'default'):
            if p.kind != 'return':
                continue
            chosen = [e.d['chosen'] for e in p.trace if e.kind == 'CHOICE' and e.d['key'].k == 'selfattr'
                      and e.d['key'].a[1] == 'eviction_policy']
            if not chosen or pol[chosen[0]].get('get') is None:
                continue
            frag = pol[chosen[0]]['get']
            col = frag.split('=')[0].strip()
            # live hit paths only: a value was fetched (get) / the in-place update ran (incr)
            if name == 'get':
                hit = any(e.kind == 'CALL' and any(t.qual.endswith('Disk.fetch') for t in e.d['targets']) for e in p.trace) \
                    and not any(e.kind == 'CATCH' for e in p.trace)
            else:
                hit = any(e.kind == 'SQL' and e.d['stmt'] is not None and e.d['stmt'].kind == 'update'
                          and 'value' in [c for c, _ in e.d['stmt'].assigns]
                          and 'filename' not in [c for c, _ in e.d['stmt'].assigns] for e in p.trace)
            if not hit:
                continue
            n += 1
            upd = [e for e in sql_events(p.trace, 'update', 'Cache') if col in [c for c, _ in e.d['stmt'].assigns]
                   and 'filename' not in [c for c, _ in e.d['stmt'].assigns]]
            good = False
            for e in upd:
                params = e.d.get('params')
                if e.txn and params is not None and not isinstance(params, V) and any(
                        x.k == 'col' and x.a[1] == 'rowid' for x in params):
                    good = True
            if not good:
                ok = False
                wit = fmt_trace(p.trace)
        if name == 'incr':
            # re-storing a value refreshes store_time (least-recently-stored order)
            okst, nst, witst = True, 0, None
            for p in ctx.paths(f, 'default'):
                for e in sql_events(p.trace, 'update', 'Cache'):
                    st = e.d['stmt']
                    cols = [c for c, _ in st.assigns]
                    if 'value' in cols:
                        nst += 1
                        params = e.d.get('params')
                        good = False
                        if 'store_time' in cols and params is not None and not isinstance(params, V):
                            for sl, pv in zip(st.slots(), params):
                                if sl[0] == 'assign' and sl[1] == 'store_time' and pv.k == 'now':
                                    good = True
                        if not good:
                            okst, witst = False, fmt_trace(p.trace)
            obs.append(Ob('E5', 'Cache.incr/store-time-refresh', okst and nst > 0,
                          'incr rewrites the value without setting store_time to now: under least-recently-stored the '
                          'counter keeps its creation time and is evicted before items stored earlier than its latest '
                          'write', f.loc(), witst))
        obs.append(Ob('E5', 'Cache.%s/policy-refresh' % name, ok and n > 0,
                      'a successful %s under an LRU/LFU policy does not refresh the row\'s access column inside the '
                      'transaction: eviction order ignores this use' % name, f.loc(), wit))
    return obs


# ---------------------------------------------------------------------- E6
@rule('E6', floor=4, title="Deque and Index always run on eviction_policy='none' and never pass an expiry")
def e6(ctx):
    obs = []
    for cls, meth in (('Deque', '__init__'), ('Index', '__init__'), ('FanoutCache', 'deque'), ('FanoutCache', 'index')):
        f = ctx.method(cls, meth)
        ok = False
        n = 0
        for p in ctx.paths(f, 'default'):
            for ev in p.trace:
                if ev.kind == 'NEW' and ev.d['name'] == 'Cache':
                    n += 1
                    v = ev.d['kwargs'].get('eviction_policy')
                    ok = v is not None and v.is_const and v.val == 'none'
                    if not ok:
                        break
        obs.append(Ob('E6', '%s.%s/policy-none' % (cls, meth), ok and n > 0,
                      "the underlying Cache is not created with eviction_policy='none': elements would be evicted "
                      'silently once the size limit is reached', f.loc()))
    bad = []
    mi = ctx.prog.modules['persistent']
    for n in ast.walk(mi.tree):
        if isinstance(n, ast.Call):
            for k in n.keywords:
                if k.arg == 'expire' and not (isinstance(k.value, ast.Constant) and k.value.value is None):
                    bad.append(n)
    obs.append(Ob('E6', 'persistent/no-expire', not bad, 'persistent containers pass an expiry to the cache: elements '
                  'would vanish', 'diskcache/persistent.py:%d' % (bad[0].lineno if bad else 1)))
    return obs


# ---------------------------------------------------------------------- E7
@rule('E7', floor=4, title='every operation that adds bytes (row insert / full row overwrite) runs the per-write cull in the same block')
def e7(ctx):
    """The size limit is only enforced by the cull that follows each write: a writing method that skips it lets the
    cache grow past its limit for as long as callers use that method."""
    h = _cull_helper(ctx)
    sites = {}
    for f in core_entries(ctx):
        if f.cls != 'Cache' or f.name.startswith('_') and not f.name.startswith('__'):
            continue
        for p in ctx.paths(f, 'default'):
            if p.kind != 'return':
                continue
            tr = p.trace
            grows = []
            for e in sql_events(tr):
                st = e.d['stmt']
                if st is None or (st.table or '') != 'Cache':
                    continue
                cols = {c for c, _ in st.assigns}
                if st.kind == 'insert' or (st.kind == 'update' and 'size' in cols and 'value' in cols):
                    grows.append(e)
            if not grows:
                continue
            last = grows[-1]
            culled = any(e.kind == 'CALL' and any(t is h for t in e.d['targets']) and e.seq > last.seq
                         and e.txn and last.txn and e.txn[0] == last.txn[0] for e in tr)
            info = sites.setdefault(f.qual, {'f': f, 'ok': True, 'wit': None, 'n': 0})
            info['n'] += 1
            if not culled:
                info['ok'] = False
                info['wit'] = info['wit'] or fmt_trace(tr)
    obs = []
    for q, info in sorted(sites.items()):
        obs.append(Ob('E7', '%s/culls-after-write' % q.replace('core.', ''), info['ok'],
                      '%s stores a row (insert or full overwrite) on a path that does not run the per-write cull '
                      'afterwards in the same transaction block: writes through this method never evict, so the cache '
                      'grows past its size limit' % q, info['f'].loc(), info['wit']))
    return obs


# ---------------------------------------------------------------------- E8
@rule('E8', floor=1, title="the per-write cull removes expired rows under every eviction policy, 'none' included")
def e8(ctx):
    """Policy 'none' (Deque, Index, the lock recipes) switches size eviction off, not expiry: "Cache items will still
    be lazily removed if they expire".  Decided on the paths of set() with the cull helper inlined: a path that has
    committed to policy 'none' (CHOICE) with a non-zero budget must have run the expired-rows SELECT before."""
    f = ctx.method('Cache', 'set')
    h = _cull_helper(ctx)
    ok, wit, n = True, None, 0
    for p in ctx.paths(f, 'default'):
        if p.kind != 'return':
            continue
        tr = p.trace
        none_choice = [e for e in tr if e.kind == 'CHOICE' and e.d.get('chosen') == 'none' and (e.fn is h or h.qual in e.stack)]
        if not none_choice:
            continue
        zero_budget = any(e.kind == 'TEST' and e.d['truth'] and e.d['val'].k == 'cmp' and e.d['val'].a[0] == ('Eq',)
                          and any(x.is_const and x.val == 0 for x in e.d['val'].a[1])
                          and any(y.k in ('selfattr', 'param') and y.a[-1 if y.k == 'selfattr' else 0] in ('cull_limit', 'limit')
                                  for x in e.d['val'].a[1] for y in values_in(x))
                          for e in tr if (e.fn is h or h.qual in e.stack))
        if zero_budget:
            continue
        n += 1
        expired = [e for e in sql_events(tr, 'select', 'Cache') if (e.fn is h or h.qual in e.stack)
                   and e.d['stmt'].where is not None and 'expire_time' in (e.d['stmt'].text or '')]
        if not expired:
            ok, wit = False, fmt_trace(tr)
    return [Ob('E8', 'Cache._cull/expired-removed-under-policy-none', ok and n > 0,
               "with eviction_policy='none' the per-write cull returns before it has looked for expired rows: expired "
               'items (and their value files) of Deque/Index/recipe caches are never removed lazily', h.loc(), wit)]
