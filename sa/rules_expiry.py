"""X rules: expiry predicate agreement, ttl conversion, keyset pagination."""
import ast

from .framework import rule, Ob, fmt_trace, sql_events, call_events, values_in, role_of, within
from .model import AnalysisError
from .values import V
from .rules_lock import core_entries, _is_row_write, _stmt_sig, bind_roles
from . import sql as sqlmod

CASES = ('NULL', '<', '=', '>')     # expire_time relative to the clock
LIVE = {'NULL', '>'}
EXPIRED = {'<', '='}

# role of SQL statements that mention expire_time in their WHERE clause, by containing function
X1_TEMPLATE = {
    'core.Cache.get': 'visibility', 'core.Cache.__contains__': 'visibility', 'core.Cache.pop': 'visibility',
    'core.Cache.__delitem__': 'visibility',
    '<cull>': 'removal', 'core.Cache.expire': 'removal', '<bulk>': 'removal',
}
X1_SQL_ROLES = {}
X1_PY_FUNCS = ('touch', 'add', 'incr', 'pull', 'peek', 'peekitem')


def _is_clock(v):
    if v is None:
        return False
    if v.k == 'now':
        return True
    if v.k == 'param' and v.a[0] == 'now':
        return True
    return False


def _num(case):
    return {'<': -1, '=': 0, '>': 1}[case]


def _sql3(e, case, params):
    """3-valued evaluation of a WHERE tree for expire_time in `case`
    relative to the clock parameter.  Returns True/False/None(NULL)."""
    t = e[0]
    if t == 'and':
        a, b = _sql3(e[1], case, params), _sql3(e[2], case, params)
        if a is False or b is False:
            return False
        if a is None or b is None:
            return None
        return True
    if t == 'or':
        a, b = _sql3(e[1], case, params), _sql3(e[2], case, params)
        if a is True or b is True:
            return True
        if a is None or b is None:
            return None
        return False
    if t == 'not':
        a = _sql3(e[1], case, params)
        return None if a is None else (not a)
    if t == 'isnull':
        if sqlmod.colname(e[1]) == 'expire_time':
            r = case == 'NULL'
            return (not r) if e[2] else r
        return True
    if t == 'cmp':
        _, op, l, r = e
        lc, rc = sqlmod.colname(l), sqlmod.colname(r)
        if lc != 'expire_time' and rc != 'expire_time':
            return True     # independent filter
        other = r if lc == 'expire_time' else l
        if case == 'NULL':
            return None
        if other[0] == 'param':
            pv = params[other[1]] if params is not None and other[1] < len(params) else None
            if not _is_clock_any(pv):
                return True  # cursor bound: independent of the clock
        elif other[0] != 'param':
            return True
        e_minus_now = _num(case)
        d = e_minus_now if lc == 'expire_time' else -e_minus_now
        return {'<': d < 0, '<=': d <= 0, '>': d > 0, '>=': d >= 0, '=': d == 0, '!=': d != 0}.get(op, True)
    if t == 'in':
        return True
    return True


def _is_clock_any(v):
    if v is None:
        return False
    return any(_is_clock(x) for x in values_in(v))


def _mentions_expire(st):
    return st.where is not None and sqlmod.mentions_col(st.where, 'expire_time')


def _clock_bound(st, params):
    """True if some ? compared with expire_time is fed by the clock."""
    for i, sl in enumerate(st.slots()):
        core = sl[1:] if sl and sl[0] == 'sub' else sl
        if core and core[0] == 'cmp' and core[1] == 'expire_time':
            if params is not None and not isinstance(params, V) and i < len(params) and _is_clock_any(params[i]):
                return True
    return False


def _py_atom_cases(ev):
    """For a TEST on an expire_time column: the set of cases under which the
    tested atom is true, or None if the event is not such an atom."""
    v = ev.d['val']
    neg = False
    while v.k == 'not':
        v = v.a[0]
        neg = not neg
    if v.k != 'cmp' or len(v.a[0]) != 1 or len(v.a[1]) != 2:
        return None
    op = v.a[0][0]
    a, b = v.a[1]

    def is_exp(x):
        return x.k == 'col' and x.a[1] == 'expire_time'
    if not (is_exp(a) or is_exp(b)):
        return None
    e, o = (a, b) if is_exp(a) else (b, a)
    sel = e.a[0]
    if op in ('Is', 'IsNot') and o.is_const and o.val is None:
        s = {'NULL'} if op == 'Is' else {'<', '=', '>'}
    elif op in ('Lt', 'LtE', 'Gt', 'GtE', 'Eq', 'NotEq') and _is_clock_any(o):
        s = set()
        for c in ('<', '=', '>'):
            d = _num(c) if is_exp(a) else -_num(c)
            if {'Lt': d < 0, 'LtE': d <= 0, 'Gt': d > 0, 'GtE': d >= 0, 'Eq': d == 0, 'NotEq': d != 0}[op]:
                s.add(c)
        # a comparison with None raises in Python: NULL is never consistent with an evaluated comparison
    else:
        return ('other', sel)
    if neg:
        s = (set(CASES) - s) if op in ('Is', 'IsNot') else ({'<', '=', '>'} - s)
    return ('atom', sel, s, op in ('Is', 'IsNot'))


def _window_class(trace, start, sel):
    """Classify what the code does with the row of SELECT `sel` after the
    expiry tests ending at index `start`."""
    sst = trace[sel]
    site = (sst.fn.qual, sst.line, sst.node.col_offset, sst.sites)
    live = expired = False
    why = []
    for e in trace[start:]:
        if e.kind == 'SQL' and e.d['stmt'] is not None and e.seq != sel and \
                (e.fn.qual, e.line, e.node.col_offset, e.sites) == site:
            break   # next iteration re-reads
        if e.kind == 'CLEANUP':
            v = e.d['val']
            if v.k == 'storeelt':
                live = True
                why.append('releases the NEW file (key treated as present)')
            elif v.k == 'col' and v.a[0] == sel:
                expired = True
                why.append('releases the row\'s old file')
        elif e.kind == 'SQL' and e.d['stmt'] is not None and (e.d['stmt'].table or '').lower() == 'cache':
            st = e.d['stmt']
            params = e.d.get('params')
            on_row = params is not None and not isinstance(params, V) and any(
                x.k == 'col' and x.a[0] == sel and x.a[1] == 'rowid' for x in params)
            if not on_row:
                continue
            if st.kind == 'delete':
                expired = True
                why.append('deletes the row')
            elif st.kind == 'update':
                cols = [c for c, _ in st.assigns]
                if 'filename' in cols and 'mode' in cols:
                    expired = True
                    why.append('overwrites the row as if absent')
                else:
                    live = True
                    why.append('updates the row in place (%s)' % ','.join(cols))
        elif e.kind == 'CALL' and any(t.qual.endswith('Disk.fetch') for t in e.d['targets']):
            if any(x.k == 'col' and x.a[0] == sel for x in e.d['args']):
                live = True
                why.append('returns the row\'s value')
        elif e.kind == 'RAISE' and e.d.get('typ') == 'KeyError' and not e.d.get('hyp'):
            expired = True
            why.append('raises KeyError')
            break
        elif e.kind == 'RETURN' and (e.fn is sst.fn or within(sst, e.fn.qual)):
            v = e.d['val']
            if not live and not expired:
                if v.is_const and v.val is False:
                    expired = True
                    why.append('returns False (treated as absent)')
            break
    return live, expired, why


@rule('X1', floor=12, title='one liveness predicate: every expiry comparison treats an item as live iff expire_time is NULL or > now')
def x1(ctx):
    X1_SQL_ROLES.clear()
    X1_SQL_ROLES.update(bind_roles(ctx, X1_TEMPLATE))
    obs = []
    # ---------------- SQL side
    sites = {}
    for f in core_entries(ctx):
        if f.cls != 'Cache':
            continue
        for p in ctx.paths(f, 'default'):
            for ev in p.trace:
                if ev.kind != 'SQL' or ev.d['stmt'] is None:
                    continue
                st = ev.d['stmt']
                params = ev.d.get('params')
                cands = []
                if st.kind == 'delete' and isinstance(st.subselect, sqlmod.Stmt):
                    if _mentions_expire(st.subselect):
                        cands.append(st.subselect)
                elif st.kind in ('select', 'delete', 'update') and _mentions_expire(st):
                    cands.append(st)
                for cst in cands:
                    k = (ev.fn.qual, cst.text or st.text, ev.line, ev.node.col_offset, cst.kind if cst is st else 'sub')
                    if k in sites:
                        continue
                    plist = None if params is None or isinstance(params, V) else params
                    role = role_of(ev, X1_SQL_ROLES)
                    if not _clock_bound(st, plist):
                        sites[k] = (ev, role, None, 'no parameter compared with expire_time is fed by the clock '
                                    '(time.time() of this call)', st)
                        continue
                    vec = tuple(_sql3(cst.where, c, plist) is True for c in CASES)
                    sites[k] = (ev, role, vec, '', st)
    ordinal = {}
    for k in sorted(sites, key=lambda k: (k[0], k[2], k[3], k[4])):
        ev, role, vec, why, st = sites[k]
        base = '%s/sql:%s' % (k[0].replace('core.', ''), st.kind)
        ordinal[base] = ordinal.get(base, 0) + 1
        key = base if ordinal[base] == 1 else '%s#%d' % (base, ordinal[base])
        loc = ev.fn.loc(ev.node)
        if role is None and vec is not None:
            # a function outside the table (new API): its predicate must still be one of the two canonical forms -
            # exactly the live items (NULL or > now) or only expired items including every `< now`
            sel_cases = {c for c, t in zip(CASES, vec) if t}
            canonical = vec == (True, False, False, True) or (sel_cases <= EXPIRED and '<' in sel_cases)
            obs.append(Ob('X1', key, canonical,
                          'the statement selects rows for expire_time cases %s (NULL,<,=,> now): neither the live '
                          'predicate (NULL or > now) nor an expired predicate (every < now, nothing live)' % (vec,), loc))
            continue
        if vec is None:
            obs.append(Ob('X1', key, False, why, loc))
        elif role == 'visibility':
            obs.append(Ob('X1', key, vec == (True, False, False, True),
                          'visibility query selects rows for expire_time cases %s (NULL,<,=,> now); must be exactly '
                          'NULL and > now' % (vec,), loc))
        else:
            sel_cases = {c for c, t in zip(CASES, vec) if t}
            obs.append(Ob('X1', key, sel_cases <= EXPIRED and '<' in sel_cases,
                          'removal query selects rows for expire_time cases %s; must select every item with '
                          'expire_time < now and no live item' % sorted(sel_cases), loc))
    # ---------------- Python side
    for name in X1_PY_FUNCS:
        f = ctx.method('Cache', name)
        ok = True
        why = ''
        wit = None
        n = 0
        for p in ctx.paths(f, 'default'):
            if p.kind == 'cut':
                continue
            tr = p.trace
            i = 0
            while i < len(tr):
                a = _py_atom_cases(tr[i]) if tr[i].kind == 'TEST' else None
                if a is None or a[0] != 'atom':
                    i += 1
                    continue
                sel = a[1]
                cases = set(CASES)
                j = i
                saw_cmp = False
                while j < len(tr):
                    if tr[j].kind == 'TEST':
                        b = _py_atom_cases(tr[j])
                        if b is not None and b[0] == 'atom' and b[1] == sel:
                            s = b[2] if tr[j].d['truth'] else ((set(CASES) if b[3] else {'<', '=', '>'}) - b[2])
                            if not b[3]:
                                saw_cmp = True
                                cases -= {'NULL'}
                            cases &= s
                            j += 1
                            continue
                        if b is None and tr[j].d['val'].k in ('cmp', 'not'):
                            pass
                    if tr[j].kind in ('EXT', 'TEST') and (tr[j].kind == 'EXT' and tr[j].d['name'] == 'time.time'):
                        j += 1
                        continue
                    break
                live, expired, reasons = _window_class(tr, j, sel)
                n += 1
                if live and expired:
                    ok, why, wit = False, 'the row is treated both as live and as expired (%s)' % '; '.join(reasons), fmt_trace(tr)
                elif live and not cases <= LIVE:
                    ok = False
                    why = 'the item is treated as live (%s) when expire_time is %s now' % (
                        '; '.join(reasons), '/'.join(sorted(cases - LIVE)))
                    wit = fmt_trace(tr)
                elif expired and not cases <= EXPIRED:
                    ok = False
                    why = 'the item is treated as expired (%s) when expire_time is %s' % (
                        '; '.join(reasons), '/'.join(sorted(cases - EXPIRED)))
                    wit = fmt_trace(tr)
                i = max(j, i + 1)
        obs.append(Ob('X1', 'Cache.%s/py' % name, ok and n > 0,
                      why or 'no expiry comparison found (matcher blind)', f.loc(), wit))
    return obs


# ---------------------------------------------------------------------- X2
@rule('X2', floor=5, title='ttl conversion: expire_time is NULL iff expire is None, else now + expire; incr creates without expiry')
def x2(ctx):
    obs = []
    for name in ('set', 'add', 'touch', 'push', 'incr'):
        f = ctx.method('Cache', name)
        ok = True
        why = ''
        wit = None
        n = 0
        for p in ctx.paths(f, 'default'):
            if p.kind == 'cut':
                continue
            for ev in p.trace:
                if ev.kind != 'SQL' or ev.d['stmt'] is None or ev.d['stmt'].kind not in ('insert', 'update'):
                    continue
                st = ev.d['stmt']
                if (st.table or '').lower() != 'cache':
                    continue
                params = ev.d.get('params')
                if params is None or isinstance(params, V):
                    continue
                for sl, pv in zip(st.slots(), params):
                    if sl[0] in ('assign', 'value') and sl[1] == 'expire_time':
                        n += 1
                        expire = V('param', 'expire', 'core')
                        if name == 'incr':
                            good = pv.is_const and pv.val is None
                            msg = 'incr must create its item without an expiry'
                        elif pv.is_const and pv.val is None:
                            good = p.st.facts.get(('none', expire)) is True
                            msg = 'expire_time is NULL (never expires) on a path where `expire` is not known to be ' \
                                  'None (e.g. expire=0 would mean "forever")'
                        else:
                            good = pv.k == 'term' and pv.a[0] == 'Add' and set(pv.a[1]) == {expire, _now_of(pv)} \
                                and p.st.facts.get(('none', expire)) is False
                            msg = 'expire_time is %s, not now + expire' % (pv,)
                        if not good:
                            ok, why, wit = False, msg, fmt_trace(p.trace)
        obs.append(Ob('X2', 'Cache.%s/ttl' % name, ok and n > 0, why or 'no expire_time assignment found', f.loc(), wit))
    return obs


def _now_of(pv):
    for x in pv.a[1]:
        if x.k == 'now':
            return x
    return None


# ---------------------------------------------------------------------- X3
def schema(ctx):
    """Unique keys of table Cache from the CREATE statements in __init__."""
    init = ctx.method('Cache', '__init__')
    uniq = []
    cols = []
    for p in ctx.paths(init, 'plain')[:50]:
        for ev in p.trace:
            if ev.kind != 'SQL' or ev.d['stmt'] is None:
                continue
            st = ev.d['stmt']
            if st.kind == 'create_table' and (st.table or '').lower() == 'cache':
                cols = [c[0] for c in st.table_cols]
                for c in st.table_cols:
                    if 'PRIMARY KEY' in (c[2] or '').upper():
                        uniq.append((c[0],))
            if st.kind == 'create_index' and st.unique and (st.table or '').lower() == 'cache' and st.where is None:
                uniq.append(tuple(st.index_cols))
        if uniq and cols:
            break
    return cols, sorted(set(uniq))


def _or_lex_form(w, cur_cols, slots, cursor_idx):
    """Recognise  c1 = ? AND c2 OP ? OR c1 OP ?  (lexicographic successor)."""
    if w is None or w[0] != 'or':
        return None
    a, b = w[1], w[2]
    if a[0] != 'and':
        a, b = b, a
    if a[0] != 'and' or b[0] != 'cmp':
        return None
    eq, strict = a[1], a[2]
    if eq[0] != 'cmp' or strict[0] != 'cmp':
        return None
    if eq[1] != '=':
        eq, strict = strict, eq
    if eq[1] != '=':
        return None
    c1 = sqlmod.colname(eq[2])
    c2 = sqlmod.colname(strict[2])
    c1b = sqlmod.colname(b[2])
    if not (c1 and c2 and c1 == c1b and b[1] == strict[1] and b[1] in ('<', '>')):
        return None
    return (c1, c2), b[1]


@rule('X3', floor=6, title='keyset pagination: cursor = ORDER BY columns, direction matches, unique key or non-strict bound with deletion')
def x3(ctx):
    cols, uniq = schema(ctx)
    if not uniq:
        raise AnalysisError('X3: schema of table Cache not found')
    inst = {}
    for f in core_entries(ctx):
        if f.cls != 'Cache':
            continue
        for p in ctx.paths(f, 'default'):
            tr = p.trace
            last = {}
            for ev in tr:
                if ev.kind != 'SQL' or ev.d['stmt'] is None or ev.d['stmt'].kind != 'select':
                    continue
                st = ev.d['stmt']
                if st.limit is None or (st.table or '').lower() != 'cache':
                    continue
                site = (ev.fn.qual, ev.line, ev.node.col_offset, ev.sites)
                prev = last.get(site)
                last[site] = ev
                params = ev.d.get('params')
                if params is None or isinstance(params, V):
                    continue
                # cursor: parameters fed from rows of an earlier SELECT (this site or the seeding select)
                cur = [(i, x) for i, x in enumerate(params) if x.k == 'col' and tr[x.a[0]].d['stmt'] is not None
                       and tr[x.a[0]].d['stmt'].kind == 'select' and x.a[0] != ev.seq]
                if prev is None:
                    continue
                dirs = tuple(d for _, d in st.order)
                k = (f.qual, site, st.text)
                if k in inst:
                    continue
                if st.offset is not None:
                    inst[k] = (False, 'the query pages with LIMIT/OFFSET: rows inserted or deleted between two pages '
                               '(by this loop or by another client) shift the window, so rows are skipped or seen '
                               'twice', ev, f, fmt_trace(tr), dirs)
                    continue
                if not cur:
                    # the same page query re-issued with no cursor: sound only if the visited rows are gone
                    if list(params) != list(prev.d.get('params') or []):
                        if st.limit[0] == 'param':
                            inst[k] = (False, 'a LIMIT ? query is re-issued in a loop with parameters that are not '
                                       'taken from the last row of the previous page (unrecognised paging scheme)',
                                       ev, f, fmt_trace(tr), dirs)
                        continue
                    deleted = any(e.kind == 'SQL' and e.d['stmt'] is not None and e.d['stmt'].kind == 'delete'
                                  and prev.seq < e.seq < ev.seq for e in tr)
                    inst[k] = (deleted, 'the page query is re-issued with the same parameters although the rows of '
                               'the previous page still exist: the loop never advances', ev, f,
                               None if deleted else fmt_trace(tr), dirs)
                    continue
                if not all(x.a[0] == prev.seq for _, x in cur):
                    continue
                slots = st.slots()
                if len(slots) != len(params):
                    inst[k] = (False, 'the page query has %d placeholders but %d parameters' % (len(slots), len(params)),
                               ev, f, fmt_trace(tr), dirs)
                    continue
                curcols = []
                ops = []
                for i, x in cur:
                    sl = slots[i]
                    curcols.append((sl[1] if sl[0] == 'cmp' else '?', x.a[1], sl))
                order_cols = [sqlmod.colname(e) for e, _ in st.order]
                ok, why = True, ''
                # 1. fed column == compared column
                for cmpcol, fedcol, sl in curcols:
                    if cmpcol != fedcol:
                        ok, why = False, 'cursor parameter compared with column %s is fed from column %s of the last row' % (cmpcol, fedcol)
                cset = []
                for cmpcol, _, _ in curcols:
                    if cmpcol not in cset:
                        cset.append(cmpcol)
                # 2. ORDER BY columns == cursor columns
                if ok and order_cols != cset:
                    ok, why = False, 'ORDER BY %s does not match the cursor columns %s' % (order_cols, cset)
                # 3. direction and strictness
                strict = True
                if ok:
                    if len(cset) == 1:
                        sl = [s for c, _, s in curcols][0]
                        op, side = sl[2], sl[3]
                        # normalise to  col OP ?
                        if side == 'left':
                            op = {'<': '>', '<=': '>=', '>': '<', '>=': '<='}.get(op, op)
                        want = 'ASC' if op in ('>', '>=') else 'DESC'
                        strict = op in ('<', '>')
                        if dirs[0] != want:
                            ok, why = False, 'cursor comparison `%s %s ?` does not match ORDER BY ... %s' % (cset[0], op, dirs[0])
                        if not _top_conj(st.where, cset[0]):
                            ok, why = False, 'the cursor bound is not a top-level conjunct of the WHERE clause'
                    else:
                        lf = _or_lex_form(st.where, cset, slots, [i for i, _ in cur])
                        if lf is None or list(lf[0]) != cset:
                            ok, why = False, 'multi-column cursor is not the lexicographic form c1 = ? AND c2 OP ? OR c1 OP ?'
                        else:
                            want = 'ASC' if lf[1] == '>' else 'DESC'
                            if not all(d == want for d in dirs):
                                ok, why = False, 'lexicographic cursor direction %s does not match ORDER BY %s' % (lf[1], dirs)
                # 4. uniqueness or (non-strict and deleted)
                if ok:
                    is_unique = any(set(u) <= set(cset) for u in uniq)
                    deleted = any(e.kind == 'SQL' and e.d['stmt'] is not None and e.d['stmt'].kind == 'delete'
                                  and prev.seq < e.seq < ev.seq for e in tr)
                    if not is_unique and not (not strict and deleted):
                        ok = False
                        why = ('the cursor column%s %s is not a unique key and the bound is %s: rows that share the '
                               'last row\'s value are skipped by the next page%s' % (
                                   's' if len(cset) > 1 else '', cset, 'strict' if strict else 'non-strict',
                                   '' if deleted else ' (and visited rows are not deleted)'))
                inst[k] = (ok, why, ev, f, fmt_trace(tr) if not ok else None, dirs)
    obs = []
    ordinal = {}
    for k in sorted(inst, key=lambda k: (k[0], k[2])):
        ok, why, ev, f, wit, dirs = inst[k]
        base = '%s/page:%s' % (f.qual.replace('core.', ''), ','.join(str(d) for d in dirs))
        ordinal[base] = ordinal.get(base, 0) + 1
        key = base if ordinal[base] == 1 else '%s#%d' % (base, ordinal[base])
        obs.append(Ob('X3', key, ok, why, ev.fn.loc(ev.node), wit))
    # a multi-column order is one lexicographic order: every ORDER BY term of a statement on Cache has the same
    # direction as the first (the row-value cursor `(key, raw) < (?, ?)` only matches such an order; a first-row query
    # with mixed directions starts the scan in the middle of a group of equal keys)
    mixed = {}
    for f in core_entries(ctx):
        if f.cls != 'Cache':
            continue
        for p in ctx.paths(f, 'default'):
            for ev in sql_events(p.trace, 'select', 'Cache'):
                st = ev.d['stmt']
                if len(st.order) >= 2 and {sqlmod.colname(e) for e, _ in st.order} == {'key', 'raw'}:
                    dirs = {d for _, d in st.order}
                    k = (f.qual, ev.line, ev.node.col_offset, tuple(d for _, d in st.order))
                    mixed.setdefault(k, (len({str(d) for d in dirs}) == 1 or any('⟦' in str(d) for d in dirs), ev, f))
    for k in sorted(mixed, key=lambda k: (k[0], k[1], k[2], str(k[3]))):
        okm, ev, f = mixed[k]
        key = '%s/order-one-direction:%s' % (f.qual.replace('core.', ''), ','.join(str(d) for d in k[3]))
        if any(o.key == key for o in obs):
            key += '#%d' % (sum(1 for o in obs if o.key.startswith(key)) + 1)
        obs.append(Ob('X3', key, okm, 'the ORDER BY terms of one statement have different directions %s: the scan does '
                      'not follow the lexicographic (key, raw) order its cursor assumes, so among rows with equal keys some '
                      'are skipped' % (k[3],), ev.fn.loc(ev.node)))
    return obs


def _top_conj(w, col):
    if w is None:
        return False
    if w[0] == 'and':
        return _top_conj(w[1], col) or _top_conj(w[2], col)
    return w[0] == 'cmp' and (sqlmod.colname(w[2]) == col or sqlmod.colname(w[3]) == col)


# ---------------------------------------------------------------------- X4
@rule('X4', floor=8, title='liveness is decided with a clock read after the write lock was obtained, not before waiting for it')
def x4(ctx):
    X1_SQL_ROLES.clear()
    X1_SQL_ROLES.update(bind_roles(ctx, X1_TEMPLATE))
    """A visibility decision taken inside a transaction block must compare
    expire_time with a clock value read inside that block: the wait for the
    lock is unbounded (retry=True), and an item that expires during the wait
    would otherwise be treated as live."""
    res = {}
    for f in core_entries(ctx):
        if f.cls != 'Cache':
            continue
        for p in ctx.paths(f, 'default'):
            if p.kind == 'cut':
                continue
            tr = p.trace
            enter_seq = {e.d['inst']: e.seq for e in tr if e.kind == 'TXN_ENTER'}
            for ev in tr:
                clocks = []
                if ev.kind == 'TEST' and ev.txn:
                    a = _py_atom_cases(ev)
                    if a is not None and a[0] == 'atom' and not a[3]:
                        clocks = [x for x in values_in(ev.d['val']) if x.k == 'now']
                elif ev.kind == 'SQL' and ev.txn and ev.d['stmt'] is not None and ev.d['stmt'].kind == 'select' \
                        and role_of(ev, X1_SQL_ROLES) == 'visibility' and _mentions_expire(ev.d['stmt']):
                    params = ev.d.get('params')
                    if params is not None and not isinstance(params, V):
                        for i, sl in enumerate(ev.d['stmt'].slots()):
                            if sl[0] == 'cmp' and sl[1] == 'expire_time' and i < len(params):
                                clocks += [x for x in values_in(params[i]) if x.k == 'now']
                if not clocks:
                    continue
                key = f.qual.replace('core.', '')
                ent = res.setdefault(key, [True, None, f])
                begin = enter_seq.get(ev.txn[0])
                for c in clocks:
                    if begin is not None and c.a[0] < begin:
                        ent[0] = False
                        ent[1] = ent[1] or fmt_trace(tr)
    obs = []
    for key in sorted(res):
        ok, wit, f = res[key]
        obs.append(Ob('X4', '%s/clock-after-lock' % key, ok,
                      'the expiry comparison inside the transaction uses time.time() read BEFORE BEGIN IMMEDIATE: when '
                      'the call waits for the write lock past the item\'s expiry time, the expired item is still '
                      'treated as live (touched back to life, reported present, incremented)', f.loc(), wit))
    return obs
