"""F and V rules: value-file lifecycle."""
import ast

from .framework import rule, Ob, fmt_trace, sql_events, call_events, values_in, role_of, within, deep_values
from .model import AnalysisError, walk_shallow, dotted
from .values import V
from .rules_lock import core_entries, _is_row_write, _stmt_sig
from . import sql as sqlmod


def _disk(ctx, name):
    return ctx.method('Disk', name)


def _writer_func(ctx):
    """Functions containing an open() whose mode is not a known read-only constant on some path:
    (function, call node, mode) triples.  The mode is evaluated along paths, so a local `mode = 'rb' if ... else 'r'`
    is recognised as read-only while a mode received as a parameter is not."""
    cached = getattr(ctx, '_writer_cache', None)
    if cached is not None:
        return cached
    writers = []
    seen = set()
    for f in ctx.prog.all_funcs():
        has_open = any(isinstance(n, ast.Call) and dotted(n.func) in ('open', 'io.open', 'codecs.open')
                       for n in walk_shallow(f.node))
        if not has_open:
            continue
        for p in ctx.paths(f, 'plain'):
            for e in p.trace:
                if e.kind == 'EXT' and e.d['name'] in ('builtins.open', 'io.open', 'codecs.open') and e.fn is f:
                    args, kw = e.d['args'], e.d['kwargs']
                    m = kw.get('mode') or (args[1] if len(args) > 1 else None)
                    mode = 'r' if m is None else (m.val if m.is_const else None)
                    if mode is None or not isinstance(mode, str) or any(c in mode for c in 'wax+'):
                        k = (f.qual, e.line, e.node.col_offset, mode)
                        if k not in seen:
                            seen.add(k)
                            writers.append((f, e.node, mode))
    ctx._writer_cache = writers
    return writers


def _open_mode(call):
    m = None
    if len(call.args) >= 2:
        m = call.args[1]
    for k in call.keywords:
        if k.arg == 'mode':
            m = k.value
    if m is None:
        return 'r'
    if isinstance(m, ast.Constant):
        return m.value
    return m  # ast node: not constant


@rule('F1', floor=5, title='value files are created exclusively by one writer; never overwritten, renamed or truncated')
def f1(ctx):
    obs = []
    writers = _writer_func(ctx)
    wf = {f.qual for f, _, _ in writers}
    obs.append(Ob('F1', 'single-writer', len(wf) == 1 and all(f.cls == 'Disk' for f, _, _ in writers),
                  'write-mode open() found in %s: value files must be created by the one Disk writer only' %
                  sorted(wf), writers[0][0].loc(writers[0][1]) if writers else ''))
    if len(wf) != 1:
        return obs
    w = writers[0][0]
    # constant write modes at the open itself must be exclusive
    for f, n, mode in writers:
        if isinstance(mode, str):
            obs.append(Ob('F1', 'open-mode-const', 'x' in mode and '+' not in mode,
                          'open mode %r is not exclusive-create: an existing value file would be overwritten in place '
                          'and a concurrent reader could see a mixed value' % mode, f.loc(n)))
    # every caller passes a constant mode containing 'x'
    ncall = 0
    seen_sites = {}
    pidx = w.params.index('mode') if 'mode' in w.params else None
    for f in ctx.prog.all_funcs():
        for p in ctx.paths(f, 'plain'):
            for ev in call_events(p.trace, w.qual):
                args = ev.d['args']
                mode = ev.d['kwargs'].get('mode')
                if mode is None and pidx is not None and len(args) > pidx:
                    mode = args[pidx]
                sitek = (f.qual, ev.line, ev.node.col_offset)
                if sitek in seen_sites:
                    continue
                seen_sites[sitek] = 1
                ncall += 1
                key = 'caller/%s/%s#%d' % (f.qual, mode.val if mode is not None and mode.is_const else '?', ncall)
                ok = mode is not None and mode.is_const and isinstance(mode.val, str) and 'x' in mode.val \
                    and not any(c in mode.val for c in 'wa+')
                obs.append(Ob('F1', key, ok, 'the writer is called with mode %r: must be a constant exclusive-create '
                              'mode' % (mode,), f.loc(ev.node)))
    # no rename / replace / truncate anywhere
    bad = []
    for f in ctx.prog.all_funcs():
        for n in walk_shallow(f.node):
            if isinstance(n, ast.Call):
                d = dotted(n.func) or ''
                full = ctx.prog.resolve_name(f.module, d)
                if full in ('os.rename', 'os.replace', 'os.truncate', 'os.ftruncate', 'shutil.move', 'os.link',
                            'os.symlink'):
                    bad.append((f, n, full))
    obs.append(Ob('F1', 'no-rename-truncate', not bad, 'value files are moved/truncated in place: %s' %
                  ', '.join('%s in %s' % (x, f.qual) for f, n, x in bad), bad[0][0].loc(bad[0][1]) if bad else ''))
    return obs


@rule('F2', floor=3, title='the file writer writes every chunk, returns the byte total, and returns only with the file closed')
def f2(ctx):
    writers = _writer_func(ctx)
    if not writers:
        raise AnalysisError('anchor vanished: no write-mode open() in the package')
    w = writers[0][0]
    it_param = None
    ok_all, ok_size, ok_closed = True, True, True
    wit = None
    n = 0
    for p in ctx.paths(w, 'plain'):
        if p.kind != 'return':
            continue
        opens = [e for e in p.trace if e.kind == 'EXT' and e.d['name'] == 'builtins.open']
        if not opens:
            continue
        o = opens[-1]
        wenter = [e for e in p.trace if e.kind == 'WITH_ENTER' and e.d['ctx'].k == 'ext' and e.d['ctx'].a[1] == o.seq]
        fors = [e for e in p.trace[o.seq:] if e.kind == 'FOR' and e.d['iter'].k == 'param']
        if not fors:
            ok_all = False
            wit = fmt_trace(p.trace)
            continue
        one = [e for e in fors if e.d['it'] == 1]
        rv = p.outcome[1]
        if one:
            n += 1
            itv = one[0].d['iter']
            writes = [e for e in p.trace if e.kind == 'MCALL' and e.d['name'] == 'write' and e.d['recv'].k == 'ext'
                      and e.d['recv'].a[1] == o.seq and e.d['args'] and e.d['args'][0] == V('elem', itv)]
            # the write must not be conditional: no undecided TEST between FOR and the write
            fi = one[0].seq
            if not writes:
                ok_all = False
                wit = fmt_trace(p.trace)
            else:
                cond = [e for e in p.trace[fi:writes[0].seq] if e.kind == 'TEST' and not e.d.get('decided')]
                if cond:
                    ok_all = False
                    wit = fmt_trace(p.trace)
            lens = [x for x in values_in(rv) if x.k == 'term' and x.a[0] == 'len' and x.a[1] == (V('elem', itv),)]
            if not lens or not (rv.k == 'term' and rv.a[0] == 'Add'):
                ok_size = False
                wit = fmt_trace(p.trace)
            forend = [e for e in p.trace if e.kind == 'FOREND' and e.node is one[0].node]
            rets = [e for e in p.trace if e.kind == 'RETURN']
            if not forend or not rets or rets[-1].seq < forend[-1].seq:
                ok_all = False
                wit = fmt_trace(p.trace)
        else:
            if not (rv.is_const and rv.val == 0):
                ok_size = False
        if not wenter:
            ok_closed = False
            wit = fmt_trace(p.trace)
    loc = w.loc()
    # the chunk iterator can be consumed once: a path that starts a second pass over it after the first pass took
    # something out (a retry after a failed write) stores only the tail of the value
    once, wit1 = True, None
    for p in ctx.paths(w, 'default'):
        if p.kind == 'cut':
            continue
        passes = [e for e in p.trace if e.kind == 'FOR' and e.d['it'] == 1 and e.d['iter'].k == 'param']
        if len({e.seq for e in passes}) > 1 and len({e.d['iter'] for e in passes}) == 1:
            once, wit1 = False, fmt_trace(p.trace)
    # same question on the syntax tree (loops are only unrolled once on paths): the chunk loop sits inside a retry
    # loop, and a handler that encloses it can fall through to the next attempt
    params = set(w.posparams)
    for outer in ast.walk(w.node):
        if not isinstance(outer, (ast.For, ast.While)):
            continue
        for t in ast.walk(outer):
            if not isinstance(t, ast.Try) or t is outer:
                continue
            has_chunk_loop = any(isinstance(c, ast.For) and isinstance(c.iter, ast.Name) and c.iter.id in params
                                 for b in t.body for c in ast.walk(b))
            if not has_chunk_loop:
                continue
            for h in t.handlers:
                always_raises = bool(h.body) and isinstance(h.body[-1], ast.Raise)
                if not always_raises:
                    once = False
                    wit1 = wit1 or ['%s: the handler at line %d encloses the chunk loop and can continue the retry loop'
                                    % (w.qual, h.lineno)]
    extra = [Ob('F2', 'iterator-consumed-once', once, 'the writer can loop over the chunk iterator a second time after '
                'a first pass already consumed chunks (e.g. retrying after an OSError during the copy): the retry '
                'writes only what is left, and set() reports success for a truncated value', loc, wit1)]
    return extra + [Ob('F2', 'writes-every-chunk', ok_all and n > 0, 'the writer does not write every chunk of the iterator '
               'unconditionally before returning: a truncated value file would be committed', loc, wit),
            Ob('F2', 'returns-byte-total', ok_size and n > 0, 'the writer does not return the sum of the chunk lengths',
               loc, wit),
            Ob('F2', 'returns-with-file-closed', ok_closed and n > 0, 'the writer does not hold the handle in a `with` '
               'block: it can return before the file is closed/flushed', loc, wit)]


# ---------------------------------------------------------------------- F3
F3_FUNCS = ('set', 'add', 'push', 'incr')


def _store_events(trace):
    return [e for e in trace if e.kind == 'CALL' and any(t.qual.endswith('Disk.store') for t in e.d['targets'])]


def _path_none(p, r):
    return p.st.facts.get(('none', r)) is True


@rule('F3', floor=8, title='new value file: referenced by a committed row or released on every exit')
def f3(ctx):
    obs = []
    for name in F3_FUNCS:
        f = ctx.method('Cache', name)
        res = {}   # exit kind -> [ok, wit, count]
        for p in ctx.paths(f, 'raise_any'):
            if p.kind == 'cut':
                continue
            stores = _store_events(p.trace)
            for sev in stores:
                r = V('storeelt', sev.seq, 2)
                # did the store call itself complete?
                nxt = p.trace[sev.seq + 1] if sev.seq + 1 < len(p.trace) else None
                if nxt is not None and nxt.kind == 'RAISE' and nxt.d.get('call') == sev.seq:
                    continue
                if _path_none(p, r):
                    continue
                ref_inst = None
                cleaned_inst = None
                removed = False
                exit_ok = set()
                for e in p.trace[sev.seq + 1:]:
                    if e.kind == 'SQL' and _is_row_write(e) and e.d.get('params') is not None and \
                            not isinstance(e.d['params'], V) and r in e.d['params']:
                        ref_inst = e.d['inst'] if e.d['inst'] is not None else 'auto'
                    elif e.kind == 'CLEANUP' and e.d['val'] == r:
                        cleaned_inst = e.d['inst']
                    elif e.kind == 'REMOVE_NOW' and e.d['val'] == r:
                        removed = True
                    elif e.kind == 'CALL' and any(t.qual.endswith('Disk.remove') for t in e.d['targets']) \
                            and e.d['args'] and e.d['args'][0] == r:
                        removed = True
                    elif e.kind == 'TXN_EXIT_OK':
                        exit_ok.add(e.d['inst'])
                if p.kind == 'raise':
                    kind = 'timeout-exit' if p.raised() == 'Timeout' and any(
                        e.kind == 'TXN_BUSY' for e in p.trace) else 'exception-exit'
                else:
                    kind = 'normal-exit'
                committed = ref_inst is not None and (ref_inst == 'auto' or ref_inst in exit_ok)
                released = removed or (cleaned_inst is not None and cleaned_inst in exit_ok)
                ok = (committed != released) if kind == 'normal-exit' else released
                if kind == 'exception-exit' and p.raised() in ('KeyError',) and not p.outcome[1].hyp:
                    # explicit raise before anything was stored is handled by the generic rule too
                    pass
                ent = res.setdefault(kind, [True, None, 0])
                ent[2] += 1
                if not ok:
                    ent[0] = False
                    ent[1] = ent[1] or fmt_trace(p.trace)
        for kind in ('normal-exit', 'timeout-exit', 'exception-exit'):
            if kind not in res:
                if kind == 'timeout-exit' and name == 'incr':
                    continue    # incr stores inside the block: no file exists at BEGIN time
                raise AnalysisError('F3: no %s path with a stored file found in Cache.%s' % (kind, name))
            ok, wit, n = res[kind]
            msg = {
                'normal-exit': 'on a normal exit the freshly written value file is neither referenced by the committed '
                               'row nor released (or both)',
                'timeout-exit': 'when BEGIN times out the freshly written value file is left behind',
                'exception-exit': 'an exception after Disk.store (e.g. sqlite3 rejecting a parameter) leaves the '
                                  'freshly written value file behind with no row naming it',
            }[kind]
            obs.append(Ob('F3', 'Cache.%s/%s' % (name, kind), ok, msg, f.loc(), wit))
    return obs


# ---------------------------------------------------------------------- F4
F4_EXEMPT = {'core.Cache.check': 'the row is deleted because its file is already known to be missing'}


def _affected_filename(trace, ev):
    """For a DELETE/UPDATE event return (select seq, filename value) of the affected rows, or (None, why)."""
    st = ev.d['stmt']
    params = ev.d.get('params')
    plist = [] if params is None or isinstance(params, V) else params
    w = st.where
    if w is not None and w[0] == 'cmp' and w[1] == '=' and sqlmod.colname(w[2]) == 'rowid' and w[3][0] == 'param':
        pv = plist[w[3][1]] if w[3][1] < len(plist) else None
        if pv is not None and pv.k == 'col' and pv.a[1] == 'rowid':
            sel = pv.a[0]
            sst = trace[sel].d['stmt']
            if 'filename' in sst.colnames:
                return sel, V('col', sel, 'filename', sst.colnames.index('filename'))
            return sel, None
        return None, None
    if w is not None and w[0] == 'in' and sqlmod.colname(w[1]) == 'rowid':
        # sibling select in the same block: most recent SELECT on Cache in this instance selecting filename
        for e in reversed(trace[:ev.seq]):
            if e.kind == 'SQL' and e.d['stmt'] is not None and e.d['stmt'].kind == 'select' and \
                    (e.d['stmt'].table or '').lower() == 'cache' and e.d['inst'] == ev.d['inst']:
                sst = e.d['stmt']
                if 'filename' in sst.colnames:
                    return e.seq, V('col', e.seq, 'filename', sst.colnames.index('filename'))
                return e.seq, None
    return None, None


@rule('F4', floor=13, title='old value file is released (deferred in-block or removed after own commit) on every overwrite/delete')
def f4(ctx):
    sites = {}
    for f in core_entries(ctx):
        if f.cls != 'Cache':
            continue
        for p in ctx.paths(f, 'default'):
            if p.kind in ('cut', 'raise'):
                continue
            tr = p.trace
            for ev in tr:
                if ev.kind != 'SQL' or ev.d['stmt'] is None:
                    continue
                st = ev.d['stmt']
                if (st.table or '').lower() != 'cache':
                    continue
                if not (st.kind == 'delete' or (st.kind == 'update' and any(c == 'filename' for c, _ in st.assigns))):
                    continue
                k = (f.qual, ev.fn.qual, ev.line, ev.node.col_offset)
                info = sites.setdefault(k, {'f': f, 'ev': ev, 'ok': True, 'wit': None, 'why': '', 'n': 0,
                                            'sig': _stmt_sig(st)})
                info['n'] += 1
                if role_of(ev, F4_EXEMPT) is not None:
                    continue
                inst = ev.d['inst']
                sel, fv = _affected_filename(tr, ev)
                if fv is None:
                    info['ok'] = False
                    info['why'] = 'the statement removes/overwrites rows whose filename was never selected in the block'
                    info['wit'] = info['wit'] or fmt_trace(tr)
                    continue
                # the block must exit normally on this path for the obligation to apply
                exit_i = [e.seq for e in tr if e.kind == 'TXN_EXIT_OK' and e.d['inst'] == inst]
                if not exit_i:
                    continue
                cleaned = [e for e in tr if e.kind == 'CLEANUP' and e.d['val'] == fv and e.d['inst'] == inst]
                # ... or handed to the removal queue the outermost transaction published on the object
                cleaned += [e for e in tr if e.kind == 'MCALL' and e.d['name'] == 'append' and e.d.get('recv') is not None
                            and e.d['recv'].k == 'selfattr' and e.d['recv'].a[1] in _queue_attrs(ctx)
                            and e.d['args'] and e.d['args'][0] == fv]
                removes = [e for e in tr if e.kind == 'CALL' and any(t.qual.endswith('Disk.remove') for t in
                           e.d['targets']) and e.d['args'] and e.d['args'][0] == fv]
                inside = [e for e in removes if e.seq < exit_i[0]]
                after = [e for e in removes if e.seq > exit_i[0]]
                if inside:
                    info['ok'] = False
                    info['why'] = 'the old file is removed inside the block, before the COMMIT that unreferences it'
                    info['wit'] = info['wit'] or fmt_trace(tr)
                elif not cleaned and not after and p.st.facts.get(('none', fv)) is not True:
                    info['ok'] = False
                    info['why'] = 'the old file is never released on this path (orphan file)'
                    info['wit'] = info['wit'] or fmt_trace(tr)
    obs = []
    ordinal = {}
    for k in sorted(sites):
        info = sites[k]
        base = '%s/%s' % (info['f'].qual.replace('core.', ''), info['sig'])
        ordinal[base] = ordinal.get(base, 0) + 1
        key = base if ordinal[base] == 1 else '%s#%d' % (base, ordinal[base])
        ex = role_of(info['ev'], F4_EXEMPT) is not None
        obs.append(Ob('F4', key, info['ok'], ('exempt: ' + role_of(info['ev'], F4_EXEMPT)) if ex else info['why'],
                      info['ev'].fn.loc(info['ev'].node), info['wit'], nontrivial=not ex))
    return obs


def _queue_attrs(ctx):
    """Attributes of the cache object that the transaction manager binds to its list of files to remove after
    COMMIT (a removal queue published for nested operations)."""
    cached = ctx.__dict__.get('_queue_attrs')
    if cached is None:
        cached = set()
        mgr = ctx.prog.roles['txn_manager']
        for p in ctx.paths(mgr, 'manager'):
            for e in p.trace:
                if e.kind == 'SETATTR' and e.d['base'].k == 'self' and e.d['val'].k == 'list':
                    cached.add(e.d['attr'])
        ctx.__dict__['_queue_attrs'] = cached
    return cached


# ---------------------------------------------------------------------- F5
REMOVERS = {'os.remove', 'os.unlink', 'os.rmdir', 'os.removedirs', 'shutil.rmtree'}
F5_EXEMPT = {'persistent.Deque.reverse': "removes the temporary deque's own directory, not a cache value file"}


def _removal_sites(ctx):
    """(func, event, path) for every immediate file-system removal in the package."""
    out = []
    mgr = ctx.prog.roles['txn_manager']
    for f in ctx.prog.all_funcs():
        if f is mgr:
            continue
        if f.module == 'core' and f not in core_entries(ctx) and f.cls == 'Cache':
            continue
        if f.parent is not None and f.parent.cls == 'Cache' and f.parent.name.startswith('_') and any(
                isinstance(n, ast.Return) and isinstance(n.value, ast.Name) and n.value.id == f.name
                for n in ast.walk(f.parent.node)):
            continue        # a closure handed out by a private helper: analysed where it is called (inlined)
        for p in ctx.paths(f, 'default'):
            for ev in p.trace:
                if ev.kind == 'EXT' and ev.d['name'] in REMOVERS:
                    out.append((f, ev, p))
                elif ev.kind == 'CALL' and any(t.qual.endswith('Disk.remove') for t in ev.d['targets']):
                    out.append((f, ev, p))
    return out


def _classify_removal(f, ev, p):
    """Returns (class, ok_for_kill_safety, nested_safe, why)."""
    if ev.fn.qual == 'core.Disk.remove' or (ev.fn.cls is not None and ev.fn.module == 'core' and ev.fn.cls != 'Cache'
                                            and ev.fn.name.startswith('_') and not within(ev, 'core.Cache.check')
                                            and f.cls == ev.fn.cls):
        return 'primitive', True, True, ''     # Disk.remove and private helpers of the Disk classes
    if f.qual in F5_EXEMPT:
        # ... provided it really is the temporary object's directory
        a0 = ev.d['args'][0] if ev.d.get('args') else None
        temp = a0 is not None and any(x.k in ('new', 'ret', 'ucall') for x in deep_values(a0, p.trace)) and not any(
            x.k in ('self',) or (x.k == 'selfattr') or (x.k == 'prop' and x.a[0].k == 'self') for x in deep_values(a0, p.trace))
        if temp:
            return 'exempt', True, True, ''
        return 'unclassified', False, False, 'removes a directory that is not the temporary object\'s (the deque\'s own ' \
            'directory is deleted and the scratch one leaks)'
    tr = p.trace
    arg = ev.d['args'][0] if ev.d.get('args') else None
    if within(ev, 'core.Cache.check'):
        dom = any(e.kind == 'TEST' and e.d['val'].k == 'param' and e.d['val'].a[0] == 'fix' and e.d['truth']
                  for e in tr[:ev.seq])
        return 'check-repair', dom, dom, 'not dominated by `fix`'
    if arg is not None and arg.k == 'storeelt' and arg.a[1] == 2:
        # the file this very call has just written: discarding it is right exactly when the call fails, i.e. on a path
        # that goes on to raise, and no committed row can name it yet
        later_raise = any(e.kind == 'RAISE' for e in tr[ev.seq:]) or p.kind == 'raise'
        committed = [e for e in tr[arg.a[0]:ev.seq] if e.kind == 'TXN_EXIT_OK']
        if later_raise and not committed:
            return 'discard-new-on-error', True, True, ''
        return 'unclassified', False, False, 'removes the value file this call has just stored on a path that does not ' \
            'fail (or after the row naming it was committed)'
    if arg is not None and arg.k == 'col' and arg.a[1] == 'filename':
        sel = arg.a[0]
        inst = tr[sel].d.get('inst')
        # the row must have been deleted / overwritten in that block and the block must have exited
        wrote = [e for e in tr[sel:ev.seq] if e.kind == 'SQL' and e.d['stmt'] is not None and e.d['inst'] == inst
                 and e.d['stmt'].kind in ('delete', 'update')]
        exited = [e for e in tr[sel:ev.seq] if e.kind == 'TXN_EXIT_OK' and e.d['inst'] == inst]
        if inst is not None and wrote and exited and not ev.txn:
            return 'after-own-commit', True, False, 'removes the file although an enclosing transaction block may ' \
                'still roll the row back'
        if inst is not None and wrote and not exited:
            return 'inside-block', False, False, 'removes the file before the COMMIT that unreferences it'
        return 'unclassified', False, False, 'removes a file whose row was not deleted in a committed block'
    return 'unclassified', False, False, 'immediate removal of an unclassified object'


def _f5(ctx, nested):
    sites = {}
    for f, ev, p in _removal_sites(ctx):
        k = (ev.fn.qual, ev.line, ev.node.col_offset, f.qual)
        cls, ok_kill, ok_nested, why = _classify_removal(f, ev, p)
        info = sites.setdefault(k, {'f': f, 'ev': ev, 'ok': True, 'wit': None, 'cls': set(), 'why': ''})
        info['cls'].add(cls)
        good = ok_nested if nested else ok_kill
        if not good:
            info['ok'] = False
            info['why'] = why
            info['wit'] = info['wit'] or fmt_trace(p.trace)
    obs = []
    rid = 'F5b' if nested else 'F5a'
    ordinal = {}
    for k in sorted(sites):
        info = sites[k]
        what = info['ev'].d.get('name') or 'Disk.remove'
        base = '%s/%s' % (info['f'].qual, what)
        ordinal[base] = ordinal.get(base, 0) + 1
        key = base if ordinal[base] == 1 else '%s#%d' % (base, ordinal[base])
        obs.append(Ob(rid, key, info['ok'], '%s (%s)' % (info['why'], ','.join(sorted(info['cls']))),
                      info['ev'].fn.loc(info['ev'].node), info['wit'],
                      nontrivial=not (info['cls'] <= {'primitive', 'exempt'})))
    return obs


@rule('F5a', floor=6, title='immediate file removal only of never-referenced files or after the own COMMIT (kill safety)')
def f5a(ctx):
    return _f5(ctx, nested=False)


@rule('F5b', floor=6, title='no immediate removal of a row\'s file while an enclosing block can still roll back')
def f5b(ctx):
    return _f5(ctx, nested=True)


# ---------------------------------------------------------------------- F6
def _strip_select(st):
    """Comparable shape of a SELECT without its column list."""
    return ((st.table or '').lower(), sqlmod.render(st.where) if st.where else '',
            tuple((sqlmod.render(e), d) for e, d in st.order), sqlmod.render(st.limit) if st.limit else '')


@rule('F6', floor=5, title='the rows whose files are released are exactly the rows deleted (same template, same parameters)')
def f6(ctx):
    sites = {}
    for f in core_entries(ctx):
        if f.cls != 'Cache':
            continue
        for p in ctx.paths(f, 'default'):
            if p.kind == 'cut':
                continue
            tr = p.trace
            for ev in sql_events(tr, 'delete', 'Cache'):
                st = ev.d['stmt']
                w = st.where
                if not (w is not None and w[0] == 'in'):
                    continue
                k = (ev.fn.qual, ev.line, ev.node.col_offset)
                info = sites.setdefault(k, {'ev': ev, 'ok': True, 'wit': None, 'why': ''})
                sel, fv = _affected_filename(tr, ev)
                if sel is None:
                    info['ok'] = False
                    info['why'] = 'no SELECT in the same block supplies the rows'
                    info['wit'] = fmt_trace(tr)
                    continue
                sev = tr[sel]
                sst = sev.d['stmt']
                if isinstance(w[2], sqlmod.Stmt):
                    sub = w[2]
                    same = _strip_select(sub) == _strip_select(sst) and sub.colnames == ['rowid']
                    # the query is evaluated twice (file names, then the rows to delete): it must pick the same rows
                    if 'RANDOM(' in (st.text or '').upper().replace(' ', '') or 'RANDOM(' in (sst.text or '').upper().replace(' ', ''):
                        same = False
                    pa, pb = ev.d.get('params'), sev.d.get('params')
                    same_params = pa is not None and pb is not None and not isinstance(pa, V) and \
                        not isinstance(pb, V) and list(pa) == list(pb)
                    if not (same and same_params):
                        info['ok'] = False
                        info['why'] = 'the DELETE\'s sub-select and the SELECT that supplies the file names differ ' \
                                      '(template or parameters): files of surviving rows are removed, or deleted ' \
                                      'rows leave orphan files'
                        info['wit'] = fmt_trace(tr)
                else:
                    # rowid IN (<joined ids>): ids must be column 0 = rowid of the same rows
                    deps = [x for x in values_in(ev.d['stmtv']) if x.k == 'col']
                    good = bool(deps) and all(x.a[0] == sel and x.a[1] == 'rowid' for x in deps)
                    if not good:
                        info['ok'] = False
                        info['why'] = 'the id list of the DELETE is not built from the rowid column of the rows whose ' \
                                      'files are released'
                        info['wit'] = fmt_trace(tr)
    obs = []
    ordinal = {}
    for k in sorted(sites):
        info = sites[k]
        base = '%s/delete-in' % info['ev'].fn.qual.replace('core.', '')
        ordinal[base] = ordinal.get(base, 0) + 1
        key = base if ordinal[base] == 1 else '%s#%d' % (base, ordinal[base])
        obs.append(Ob('F6', key, info['ok'], info['why'], info['ev'].fn.loc(info['ev'].node), info['wit']))
    # bulk deleter callers: rowid first, filename last
    from .rules_lock import helper_roles
    bd = helper_roles(ctx).get('bulk')
    if bd is not None:
        for f in ctx.prog.classes['Cache'].methods.values():
            for p in ctx.paths(f, 'plain')[:1] if f is not bd else []:
                pass
        for f in ctx.prog.classes['Cache'].methods.values():
            if f is bd:
                continue
            calls = [n for n in walk_shallow(f.node) if isinstance(n, ast.Call) and dotted(n.func) == 'self.' + bd.name]
            if not calls:
                continue
            for p in ctx.paths(f, 'default'):
                sels = [e for e in sql_events(p.trace, 'select', 'Cache') if within(e, bd.qual)]
                if not sels:
                    continue
                cols = sels[0].d['stmt'].colnames
                obs.append(Ob('F6', '%s/bulk-select-shape' % f.qual.replace('core.', ''),
                              cols[0] == 'rowid' and cols[-1] == 'filename',
                              'the SELECT handed to the bulk deleter must select rowid first and filename last (got '
                              '%s)' % cols, f.loc()))
                break
    return obs


# ---------------------------------------------------------------------- F7
@rule('F7', floor=4, title='the recorded size of a file-backed value is its byte count; inline values record 0')
def f7(ctx):
    f = _disk(ctx, 'store')
    obs = {}
    for p in ctx.paths(f, 'plain'):
        if p.kind != 'return':
            continue
        rv = p.outcome[1]
        if rv.k != 'tuple' or len(rv.a[0]) != 4:
            obs['shape'] = (False, 'store does not return a 4-tuple', fmt_trace(p.trace))
            continue
        size, mode, filename, value = rv.a[0]
        mname = _mode_name(ctx, mode)
        inline = filename.is_const and filename.val is None
        if inline:
            ok = size.is_const and size.val == 0
            why = 'inline value recorded with a non-zero size'
        else:
            why = 'size of a %s file is not a byte count' % mname
            ok = False
            if size.k == 'ext' and size.a[0] == 'os.path.getsize':
                ok = True
            elif size.k == 'ret' and any(q.endswith('Disk._write') for q in size.a[1]):
                # the writer returns characters for a text stream: only binary iterators qualify
                wev = p.trace[size.a[0]]
                m = wev.d['args'][2] if len(wev.d['args']) > 2 else None
                ok = m is not None and m.is_const and 'b' in m.val
                why = 'size taken from the writer\'s chunk total of a text stream (characters, not bytes)'
            elif any(x.k == 'elem' for x in values_in(size)) or (size.is_const and size.val == 0):
                # the writer was analysed inline: chunk total of its iterator; bytes only for a binary stream
                wcalls = [e for e in p.trace if e.kind == 'CALL' and any(t.qual.endswith('Disk._write')
                                                                          for t in e.d['targets'])]
                m = wcalls[-1].d['args'][2] if wcalls and len(wcalls[-1].d['args']) > 2 else None
                ok = m is not None and m.is_const and 'b' in m.val
                why = 'size taken from the writer\'s chunk total of a text stream (characters, not bytes)'
            elif size.k == 'term' and size.a[0] == 'len':
                x = size.a[1][0]
                if x.k == 'ext' and x.a[0] in ('pickle.dumps',):
                    ok = True
                elif x.k == 'mcall' and x.a[0] in ('getvalue', 'getbuffer'):
                    ok = True
                elif x.k == 'param':
                    # len(value): bytes only when the path assumed type(value) is bytes
                    ok = any(e.kind == 'TEST' and e.d['truth'] and e.d['val'].k == 'cmp' and
                             e.d['val'].a[0] == ('Is',) and any(v.k == 'builtin' and v.a[0] == 'bytes'
                                                                  for v in e.d['val'].a[1]) for e in p.trace)
                    why = 'size is len(value) of a non-bytes value (characters, not bytes)'
        key = '%s/%s' % (mname, 'inline' if inline else 'file')
        prev = obs.get(key, (True, '', None))
        if not ok:
            obs[key] = (False, why, fmt_trace(p.trace))
        else:
            obs.setdefault(key, prev)
    return [Ob('F7', k, ok, why, f.loc(), wit) for k, (ok, why, wit) in sorted(obs.items())]


def _mode_name(ctx, v):
    if v.is_const:
        for name in ('MODE_NONE', 'MODE_RAW', 'MODE_BINARY', 'MODE_TEXT', 'MODE_PICKLE'):
            e, m = ctx.prog.const_expr('core', name)
            if e is not None and isinstance(e, ast.Constant) and e.value == v.val:
                return name
        return 'mode=%r' % (v.val,)
    return 'mode?'


# ---------------------------------------------------------------------- F8 / F9
@rule('F8', floor=2, title='Disk.remove tolerates a concurrent removal (OSError suppressed for unlink and pruning)')
def f8(ctx):
    f = _disk(ctx, 'remove')
    found = {}
    for p in ctx.paths(f, 'plain'):
        for ev in p.trace:
            if ev.kind == 'EXT' and ev.d['name'] in REMOVERS:
                guarded = any('OSError' in hs or 'Exception' in hs or 'BaseException' in hs for hs in ev.handlers)
                found[ev.d['name']] = found.get(ev.d['name'], True) and guarded
    obs = [Ob('F8', name, ok, '%s in Disk.remove is not protected against OSError: two caches removing the same file '
              'would make one of the operations fail after its commit' % name, f.loc()) for name, ok in sorted(found.items())]
    if not any(n in found for n in ('os.remove', 'os.unlink')):
        obs.append(Ob('F8', 'unlinks', False, 'Disk.remove does not unlink the file', f.loc()))
    return obs


@rule('F9', floor=1, title='a failed write does not leave a partial value file behind')
def f9(ctx):
    writers = _writer_func(ctx)
    if not writers:
        raise AnalysisError('anchor vanished: writer')
    w = writers[0][0]
    bad = None
    n = 0
    for p in ctx.paths(w, 'raise_any'):
        if p.kind != 'raise' or not p.outcome[1].hyp:
            continue
        opens = [e for e in p.trace if e.kind == 'EXT' and e.d['name'] == 'builtins.open']
        if not opens:
            continue
        o = opens[-1]
        # did open complete?
        nxt = p.trace[o.seq + 1] if o.seq + 1 < len(p.trace) else None
        if nxt is not None and nxt.kind == 'RAISE' and nxt.d.get('call') == o.seq:
            continue
        n += 1
        removed = any(e.kind == 'EXT' and e.d['name'] in ('os.remove', 'os.unlink') for e in p.trace[o.seq:])
        if not removed:
            bad = p
    return [Ob('F9', 'Disk._write/partial-file-on-exception', bad is None and n > 0,
               'an exception while streaming chunks (unencodable text, a failing reader, disk full) leaves the '
               'exclusively created partial file behind; no row will ever name it', w.loc(),
               fmt_trace(bad.trace) if bad else None)]


# ---------------------------------------------------------------------- F10
def _eval_sql_expr(e, env):
    t = e[0]
    if t == 'num':
        return e[1]
    if t == 'col':
        return env[(e[2] + '.' if len(e) > 2 else '') + e[1]]
    if t == 'binop':
        l, r = _eval_sql_expr(e[2], env), _eval_sql_expr(e[3], env)
        return {'+': l + r, '-': l - r, '*': l * r}[e[1]]
    raise KeyError(t)


def _eval_sql_bool(e, env):
    t = e[0]
    if t == 'and':
        return _eval_sql_bool(e[1], env) and _eval_sql_bool(e[2], env)
    if t == 'or':
        return _eval_sql_bool(e[1], env) or _eval_sql_bool(e[2], env)
    if t == 'not':
        return not _eval_sql_bool(e[1], env)
    if t == 'cmp':
        l, r = _eval_sql_expr(e[2], env), _eval_sql_expr(e[3], env)
        return {'=': l == r, '!=': l != r, '<': l < r, '<=': l <= r, '>': l > r, '>=': l >= r, 'is': l == r,
                'is not': l != r}[e[1]]
    if t == 'isnull':
        v = _eval_sql_expr(e[1], env)
        return (v is not None) if e[2] else (v is None)
    return bool(_eval_sql_expr(e, env))


@rule('F10', floor=6, title='count/size are maintained by triggers for every INSERT/UPDATE/DELETE and assigned nowhere else')
def f10(ctx):
    init = ctx.method('Cache', '__init__')
    triggers = {}
    for p in ctx.paths(init, 'plain'):
        for ev in sql_events(p.trace, 'create_trigger'):
            triggers[ev.d['stmt'].name] = (ev.d['stmt'], ev)
    # net effect of all AFTER triggers on Cache per (event, counter), evaluated on sample rows: a WHEN guard that is
    # false contributes nothing, several triggers for one event add up
    samples = [(0, 0), (0, 30), (70, 0), (70, 30), (30, 30)]
    want_fn = {('INSERT', 'count'): lambda n, o: 1, ('DELETE', 'count'): lambda n, o: -1,
               ('INSERT', 'size'): lambda n, o: n, ('DELETE', 'size'): lambda n, o: -o,
               ('UPDATE', 'size'): lambda n, o: n - o, ('UPDATE', 'count'): lambda n, o: 0}
    totals = {}     # (event, counter) -> list of net deltas per sample (None = not evaluable)
    for name, (st, ev) in triggers.items():
        if (st.table or '').lower() != 'cache' or st.trigger_event[0] != 'AFTER':
            continue
        for b in st.trigger_body:
            if b.kind == 'update' and (b.table or '').lower() == 'settings' and len(b.assigns) == 1 \
                    and b.assigns[0][0] == 'value' and b.where and b.where[0] == 'cmp' and b.where[3][0] == 'str':
                k = (st.trigger_event[1], b.where[3][1])
                cur = totals.setdefault(k, [0] * len(samples))
                for i, (nw, od) in enumerate(samples):
                    env = {'value': 1000, 'NEW.size': nw, 'OLD.size': od}
                    try:
                        fires = True if st.trigger_when is None else _eval_sql_bool(st.trigger_when, env)
                        if st.trigger_of is not None and st.trigger_event[1] == 'UPDATE' and 'size' not in st.trigger_of:
                            fires = False if k[1] == 'size' else fires
                        d = (_eval_sql_expr(b.assigns[0][1], env) - env['value']) if fires else 0
                    except KeyError:
                        d = None
                    cur[i] = None if (d is None or cur[i] is None) else cur[i] + d
    obs = []
    for k in [('INSERT', 'count'), ('DELETE', 'count'), ('INSERT', 'size'), ('DELETE', 'size'), ('UPDATE', 'size')]:
        got = totals.get(k)
        wantv = [want_fn[k](nw, od) for nw, od in samples]
        obs.append(Ob('F10', 'trigger/%s/%s' % k, got == wantv,
                      'the AFTER %s triggers on Cache do not adjust Settings.%s by the right amount for every row '
                      '(net effect %r for (NEW.size, OLD.size) in %r, expected %r): the counter drifts away from the '
                      'rows' % (k[0], k[1], got, samples, wantv), init.loc()))
    extra = [k for k, got in totals.items() if k not in want_fn or
             (k == ('UPDATE', 'count') and any(x != 0 for x in got))]
    obs.append(Ob('F10', 'trigger/no-extra', not extra, 'unexpected counter trigger(s): %s' % extra, init.loc()))
    # no direct assignment of count/size outside check(fix)
    bad = []
    for f in ctx.prog.all_funcs():
        if f.module != 'core':
            continue
        for n in walk_shallow(f.node):
            if isinstance(n, ast.Call) and isinstance(n.func, ast.Attribute) and n.func.attr == 'reset' and n.args \
                    and isinstance(n.args[0], ast.Constant) and n.args[0].value in ('count', 'size') \
                    and (len(n.args) > 1 or any(k.arg == 'value' for k in n.keywords)):
                bad.append((f, n))
    for f in core_entries(ctx):
        if f.cls != 'Cache' or f.name in ('reset', '__init__'):
            continue
        for p in ctx.paths(f, 'default'):
            for ev in sql_events(p.trace, 'update', 'Settings'):
                st = ev.d['stmt']
                params = ev.d.get('params')
                tgt = None
                if st.where is not None and st.where[0] == 'cmp':
                    r = st.where[3]
                    if r[0] == 'str':
                        tgt = r[1]
                    elif r[0] == 'param' and params and not isinstance(params, V) and r[1] < len(params) \
                            and params[r[1]].is_const:
                        tgt = params[r[1]].val
                    else:
                        tgt = '?'
                if tgt in ('count', 'size', '?'):
                    dom = any(e.kind == 'TEST' and e.d['val'].k == 'param' and e.d['val'].a[0] == 'fix'
                              and e.d['truth'] for e in p.trace[:ev.seq])
                    if not (within(ev, 'core.Cache.check') and dom):
                        bad.append((ev.fn, ev.node))
    obs.append(Ob('F10', 'no-direct-assignment', not bad,
                  'Settings.count/size assigned directly outside check(fix=True): %s' %
                  ', '.join(sorted({f.qual for f, _ in bad})), bad[0][0].loc(bad[0][1]) if bad else ''))
    return obs


# ---------------------------------------------------------------------- V1
@rule('V1a', floor=6, title='a value read outside the lock treats a vanished file as a miss (IOError handled)')
def v1a(ctx):
    sites = {}
    for f in core_entries(ctx):
        if f.cls != 'Cache':
            continue
        for p in ctx.paths(f, 'default'):
            for ev in p.trace:
                if ev.kind == 'CALL' and any(t.qual.endswith('Disk.fetch') for t in ev.d['targets']):
                    k = (f.qual, ev.line, ev.node.col_offset)
                    info = sites.setdefault(k, {'f': f, 'ev': ev, 'locked': False, 'unlocked': False, 'guarded': True})
                    if ev.txn:
                        info['locked'] = True
                    else:
                        info['unlocked'] = True
                        if not any('OSError' in hs or 'Exception' in hs or 'BaseException' in hs for hs in ev.handlers):
                            info['guarded'] = False
    obs = []
    ordinal = {}
    for k in sorted(sites):
        info = sites[k]
        base = '%s/fetch' % info['f'].qual.replace('core.', '')
        ordinal[base] = ordinal.get(base, 0) + 1
        key = base if ordinal[base] == 1 else '%s#%d' % (base, ordinal[base])
        obs.append(Ob('V1a', key, info['guarded'] or not info['unlocked'],
                      'Disk.fetch runs without the write lock and outside any handler for IOError/OSError: a reader '
                      'that loses the race with a replace/delete gets an exception instead of a miss',
                      info['f'].loc(info['ev'].node)))
    return obs


@rule('V1b', floor=1, title='an Index lookup must not turn a vanished (replaced) value file into "key absent"')
def v1b(ctx):
    # call chain Index.__getitem__ -> Cache.__getitem__ -> Cache.get
    idx = ctx.method('Index', '__getitem__')
    chain = False
    for p in ctx.paths(idx, 'plain'):
        for ev in call_events(p.trace, 'Cache.__getitem__'):
            chain = True
    cg = ctx.method('Cache', '__getitem__')
    via_get = False
    for p in ctx.paths(cg, 'plain'):
        for ev in call_events(p.trace, 'Cache.get'):
            via_get = True
    get = ctx.method('Cache', 'get')
    bad = None
    for p in ctx.paths(get, 'default'):
        if p.kind != 'return':
            continue
        caught = [e for e in p.trace if e.kind == 'CATCH' and 'OSError' in e.d['handler']]
        if not caught:
            continue
        rv = p.outcome[1]
        if any(x.k == 'param' and x.a[0] == 'default' for x in values_in(rv)) and \
                len([e for e in sql_events(p.trace, 'select', 'Cache')]) < 2:
            bad = p
    ok = not (chain and via_get and bad is not None)
    return [Ob('V1b', 'Index.__getitem__/vanished-file-is-keyerror', ok,
               'Index.__getitem__ -> Cache.__getitem__ -> Cache.get: when the value file vanishes between the row read '
               'and the open (a concurrent replacement), get returns the default without re-reading the row, which '
               '__getitem__ turns into KeyError although the key was never absent', get.loc(),
               fmt_trace(bad.trace) if bad is not None else None)]
