"""L rules: lock discipline of the callers of the transaction manager."""
import ast

from .framework import rule, Ob, fmt_trace, sql_events, call_events, values_in, role_of, within
from .model import AnalysisError, walk_shallow, dotted
from .values import V

# functions whose row writes are exempt from "inside a transaction block" (DESIGN Appendix A1)
L1_EXEMPT = {
    'core.Cache.reset': 'single autocommit UPDATE Settings through the busy-retry wrapper',
    'core.Cache.__init__': 'schema/settings bootstrap before the object is shared',
}


def core_entries(ctx):
    """Functions of core.py analysed as entry points: everything that the
    default inlining policy does not inline into its callers."""
    out = []
    for f in ctx.prog.all_funcs():
        if f.module != 'core':
            continue
        if f.cls == 'Cache' and f.parent is None and f.name.startswith('_') and not f.name.startswith('__') \
                and not f.is_property and not f.is_generator and not f.is_contextmanager:
            continue   # private helper: analysed inlined into each caller
        out.append(f)
    return out


def _is_row_write(ev):
    st = ev.d.get('stmt')
    if st is None:
        return False
    if st.kind in ('insert', 'update', 'delete'):
        return True
    return st.kind == 'unknown'


def _stmt_sig(st):
    if st.kind == 'update':
        cols = ','.join(c for c, _ in st.assigns)
        return 'update:%s:%s' % (st.table, cols)
    if st.kind == 'insert':
        return 'insert:%s%s' % (st.table, ':or-' + st.conflict if st.conflict else '')
    if st.kind == 'delete':
        return 'delete:%s' % st.table
    return '%s:%s' % (st.kind, st.table)


def _sql_cleanup_family(ctx):
    """Private Cache methods that are handed the two values a transaction block yields (statement executor and
    deferred-removal callback), directly or through another member: {Func: (executor param, callback param)}."""
    cached = ctx.__dict__.get('_sqlcleanup_family')
    if cached is not None:
        return cached
    methods = ctx.prog.classes['Cache'].methods
    mgr = ctx.prog.roles['txn_manager'].name
    fam = {}

    def note(call, a, b):
        d = dotted(call.func) or ''
        if not d.startswith('self.'):
            return
        h = methods.get(d[5:])
        if h is None or h.is_contextmanager or h.is_property:
            return
        pa = pb = None
        for i, x in enumerate(call.args):
            if isinstance(x, ast.Name) and i < len(h.params):
                if x.id == a:
                    pa = h.params[i]
                if x.id == b:
                    pb = h.params[i]
        for k in call.keywords:
            if isinstance(k.value, ast.Name) and k.arg:
                if k.value.id == a:
                    pa = k.arg
                if k.value.id == b:
                    pb = k.arg
        if pa and pb and h not in fam:
            fam[h] = (pa, pb)
            return True
    for g in methods.values():
        for w in ast.walk(g.node):
            if not isinstance(w, ast.With):
                continue
            for it in w.items:
                c = it.context_expr
                if isinstance(c, ast.Call) and dotted(c.func) == 'self.' + mgr and isinstance(it.optional_vars, ast.Tuple) \
                        and len(it.optional_vars.elts) == 2 and all(isinstance(x, ast.Name) for x in it.optional_vars.elts):
                    a, b = (x.id for x in it.optional_vars.elts)
                    for n in ast.walk(w):
                        if isinstance(n, ast.Call):
                            note(n, a, b)
    changed = True
    while changed:
        changed = False
        for h, (a, b) in list(fam.items()):
            for n in ast.walk(h.node):
                if isinstance(n, ast.Call) and note(n, a, b):
                    changed = True
    ctx.__dict__['_sqlcleanup_family'] = fam
    return fam


def helper_roles(ctx):
    """Private helpers of Cache found by what they do: {'cull': per-write cull helper, 'bulk': bulk deleter}."""
    out = {}
    methods = ctx.prog.classes['Cache'].methods
    fam = _sql_cleanup_family(ctx)
    cands = [f for f in methods.values() if f in fam and f.name.startswith('_') and not f.name.startswith('__')]
    # the per-write cull helper may itself be split into helpers with the same parameters: the root is the one
    # called from outside the family
    names = {f.name for f in cands}
    for f in cands:
        for g in methods.values():
            if g in cands:
                continue
            if any(isinstance(n, ast.Attribute) and n.attr == f.name for n in ast.walk(g.node)):
                out['cull'] = f
    if 'cull' not in out and cands:
        out['cull'] = cands[0]
    for f in methods.values():
        if not f.name.startswith('_') or f.name.startswith('__') or f is out.get('cull') or f.is_property:
            continue
        texts = [n.value for n in ast.walk(f.node) if isinstance(n, ast.Constant) and isinstance(n.value, str)]
        for n in ast.walk(f.node):
            if isinstance(n, ast.Name) and n.id in ctx.prog.modules[f.module].consts:
                try:
                    v = ctx.fold(n, f.module)
                except ValueError:
                    continue
                if isinstance(v, str):
                    texts.append(v)
        deletes = any(t.strip().upper().startswith('DELETE FROM CACHE') for t in texts)
        forwards = any(isinstance(n, ast.Call) and n.args and isinstance(n.args[0], ast.Name)
                       and n.args[0].id in f.params for n in ast.walk(f.node))
        if deletes and forwards:
            out['bulk'] = f
    return out


def bind_roles(ctx, template):
    """Role table keyed by qualified name with the '<cull>' / '<bulk>' placeholders bound to the discovered helpers."""
    hr = helper_roles(ctx)
    out = {}
    for k, v in template.items():
        if k.startswith('<'):
            f = hr.get(k[1:-1])
            if f is not None:
                out[f.qual] = v
        else:
            out[k] = v
    return out


def _forwarder(ev, ctx):
    """SQL call whose statement is a parameter of a closure of the retry property."""
    rp = ctx.prog.roles.get('sql_retry_prop')
    return ev.d.get('stmt') is None and rp is not None and ev.fn.parent is rp


@rule('L1', floor=20, title='every row write (Cache rows, Settings counters) executes inside a transaction block')
def l1(ctx):
    sites = {}   # (fn qual, line, col) -> info
    for f in core_entries(ctx):
        for p in ctx.paths(f, 'default'):
            for ev in p.trace:
                if ev.kind == 'SQL':
                    st = ev.d.get('stmt')
                    if st is None:
                        if _forwarder(ev, ctx):
                            continue
                        k = (ev.fn.qual, ev.line, ev.node.col_offset)
                        info = sites.setdefault(k, {'sig': 'unresolved', 'fn': ev.fn, 'stack': ev.stack, 'node': ev.node, 'in': 0,
                                                    'out': 0, 'wit': None, 'entry': set()})
                        info['out'] += 1
                        info['wit'] = info['wit'] or fmt_trace(p.trace)
                        continue
                    if st.kind == 'vacuum':
                        k = (ev.fn.qual, ev.line, ev.node.col_offset)
                        info = sites.setdefault(k, {'sig': 'vacuum', 'fn': ev.fn, 'stack': ev.stack, 'node': ev.node, 'in': 0, 'out': 0,
                                                    'wit': None, 'entry': set(), 'vacuum': True})
                        if ev.txn:
                            info['in'] += 1
                            info['wit'] = fmt_trace(p.trace)
                        else:
                            info['out'] += 1
                        continue
                    if not _is_row_write(ev):
                        continue
                    k = (ev.fn.qual, ev.line, ev.node.col_offset)
                    info = sites.setdefault(k, {'sig': _stmt_sig(st), 'fn': ev.fn, 'stack': ev.stack, 'node': ev.node, 'in': 0,
                                                'out': 0, 'wit': None, 'entry': set()})
                    info['entry'].add(f.qual)
                    if ev.txn:
                        info['in'] += 1
                    else:
                        info['out'] += 1
                        if info['wit'] is None:
                            info['wit'] = fmt_trace(p.trace)
                elif ev.kind == 'CALL' and not ev.d.get('inlined'):
                    # a row-writing private helper called without being analysed in context
                    for t in ev.d['targets']:
                        if t.cls == 'Cache' and t.name.startswith('_') and not t.name.startswith('__') \
                                and _helper_writes(ctx, t) and not ev.txn:
                            k = (ev.fn.qual, ev.line, ev.node.col_offset)
                            info = sites.setdefault(k, {'sig': 'call:' + t.name, 'fn': ev.fn, 'stack': ev.stack, 'node': ev.node,
                                                        'in': 0, 'out': 0, 'wit': None, 'entry': set()})
                            info['out'] += 1
                            info['wit'] = info['wit'] or fmt_trace(p.trace)
    obs = []
    ordinal = {}
    for k in sorted(sites):
        info = sites[k]
        fq = info['fn'].qual
        base = '%s/%s' % (fq.replace('core.', ''), info['sig'])
        ordinal[base] = ordinal.get(base, 0) + 1
        key = base if ordinal[base] == 1 else '%s#%d' % (base, ordinal[base])
        loc = info['fn'].loc(info['node'])
        if info.get('vacuum'):
            obs.append(Ob('L1', key, info['in'] == 0, 'VACUUM executes inside a transaction block', loc, info['wit']))
            continue
        if fq in L1_EXEMPT or any(q in L1_EXEMPT for q in info.get('stack', ())):
            obs.append(Ob('L1', key, True, 'exempt: bootstrap/reset', loc, nontrivial=False))
            continue
        obs.append(Ob('L1', key, info['out'] == 0 and info['in'] > 0,
                      'row write `%s` executes without holding the write lock on some path (entry: %s): a '
                      'concurrent writer can interleave with it' % (info['sig'], ','.join(sorted(info['entry'])) or fq),
                      loc, info['wit']))
    return obs


_hw_cache = {}


def _helper_writes(ctx, f):
    if f.qual not in _hw_cache:
        w = False
        for p in ctx.paths(f, 'plain'):
            for ev in p.trace:
                if ev.kind == 'SQL' and _is_row_write(ev):
                    w = True
        _hw_cache[f.qual] = w
    return _hw_cache[f.qual]


def _select_deps(v):
    """SELECT event indices whose result the value depends on."""
    out = set()
    for x in values_in(v):
        if x.k in ('col', 'rows', 'row', 'cursor'):
            out.add(x.a[0])
    return out


@rule('L2', floor=16, title='read-modify-write: the SELECT and the write it drives share one transaction block')
def l2(ctx):
    pairs = {}
    for f in core_entries(ctx):
        if f.cls != 'Cache':
            continue
        for p in ctx.paths(f, 'default'):
            tr = p.trace
            tested = set()   # select seqs whose result has been tested so far
            latest = {}      # select site -> seq of its most recent execution
            for i, ev in enumerate(tr):
                if ev.kind == 'SQL' and ev.d.get('stmt') is not None and ev.d['stmt'].kind == 'select':
                    latest[(ev.fn.qual, ev.line, ev.node.col_offset, ev.sites)] = ev.seq
                if ev.kind == 'TEST':
                    tested |= _select_deps(ev.d['val'])
                elif ev.kind == 'FOR':
                    tested |= _select_deps(ev.d['iter'])
                elif ev.kind == 'SQL' and _is_row_write(ev):
                    st = ev.d['stmt']
                    deps = set(tested)
                    params = ev.d.get('params')
                    if params is not None:
                        deps |= _select_deps(params if isinstance(params, V) else V('tuple', tuple(params)))
                    deps |= _select_deps(ev.d['stmtv'])
                    for s in deps:
                        sev = tr[s]
                        if latest.get((sev.fn.qual, sev.line, sev.node.col_offset, sev.sites)) != s:
                            continue   # a previous loop iteration's result: superseded by a re-read
                        sst = sev.d.get('stmt')
                        if sst is None or sst.kind != 'select' or (sst.table or '').lower() != 'cache':
                            continue
                        k = (f.qual, _stmt_sig(st), ev.fn.qual, ev.line, sev.fn.qual, sev.line)
                        info = pairs.setdefault(k, {'ok': True, 'wit': None, 'w': ev, 's': sev, 'f': f})
                        same = ev.d['inst'] is not None and ev.d['inst'] == sev.d['inst']
                        if not same:
                            info['ok'] = False
                            info['wit'] = info['wit'] or fmt_trace(tr)
    obs = []
    ordinal = {}
    for k in sorted(pairs, key=lambda k: (k[0], k[3], k[5])):
        info = pairs[k]
        f = info['f']
        base = '%s/%s<-select:%s' % (f.qual.replace('core.', ''), k[1], ','.join(info['s'].d['stmt'].colnames))
        ordinal[base] = ordinal.get(base, 0) + 1
        key = base if ordinal[base] == 1 else '%s#%d' % (base, ordinal[base])
        obs.append(Ob('L2', key, info['ok'],
                      'the write at %s depends on the SELECT at %s, but they do not execute in the same transaction '
                      'block: another writer can change the row in between (lost update / double add / duplicate '
                      'queue key)' % (info['w'].loc(), info['s'].loc()), info['w'].fn.loc(info['w'].node), info['wit']))
    return obs


# --------------------------------------------------------------------- L9
@rule('L9', floor=8, title='row identity: no other DELETE runs between reading a row\'s rowid and the write that uses it')
def l9(ctx):
    sites = {}
    for f in core_entries(ctx):
        if f.cls != 'Cache':
            continue
        for p in ctx.paths(f, 'default'):
            if p.kind == 'cut':
                continue
            tr = p.trace
            for ev in tr:
                if ev.kind != 'SQL' or not _is_row_write(ev) or ev.d['stmt'] is None:
                    continue
                params = ev.d.get('params')
                if params is None or isinstance(params, V):
                    continue
                rowids = [x for x in params if x.k == 'col' and x.a[1] == 'rowid']
                if not rowids:
                    continue
                sel = rowids[0].a[0]
                k = (f.qual, ev.fn.qual, ev.line, ev.node.col_offset)
                info = sites.setdefault(k, {'ok': True, 'wit': None, 'ev': ev, 'f': f, 'sig': _stmt_sig(ev.d['stmt'])})
                for d in tr[sel + 1:ev.seq]:
                    if d.kind == 'SQL' and d.d['stmt'] is not None and d.d['stmt'].kind == 'delete' and \
                            (d.d['stmt'].table or '').lower() == 'cache':
                        dp = d.d.get('params')
                        same = dp is not None and not isinstance(dp, V) and len(dp) == 1 and dp[0] == rowids[0]
                        # ... or a DELETE of exactly one other row (WHERE rowid = <another selected rowid>) that the path
                        # has established to be a different row
                        other = False
                        w = d.d['stmt'].where
                        if not same and dp is not None and not isinstance(dp, V) and len(dp) == 1 and w is not None \
                                and w[0] == 'cmp' and w[1] == '=' and dp[0].k == 'col' and dp[0].a[1] == 'rowid':
                            for t in tr[:d.seq]:
                                if t.kind == 'TEST' and t.d['val'].k == 'cmp' and t.d['val'].a[0] in (('Eq',), ('NotEq',), ('Is',), ('IsNot',)) \
                                        and set(t.d['val'].a[1]) == {dp[0], rowids[0]}:
                                    differs = t.d['truth'] if t.d['val'].a[0][0] in ('NotEq', 'IsNot') else not t.d['truth']
                                    other = other or differs
                        if not same and not other:
                            info['ok'] = False
                            info['wit'] = info['wit'] or fmt_trace(tr)
    obs = []
    ordinal = {}
    for k in sorted(sites):
        info = sites[k]
        base = '%s/%s' % (info['f'].qual.replace('core.', ''), info['sig'])
        ordinal[base] = ordinal.get(base, 0) + 1
        key = base if ordinal[base] == 1 else '%s#%d' % (base, ordinal[base])
        obs.append(Ob('L9', key, info['ok'],
                      'between the SELECT that produced the rowid and the write `WHERE rowid = ?` a DELETE on Cache '
                      'runs that may remove that very row (e.g. the lazy cull of expired rows): the write then matches '
                      'nothing and the operation silently has no effect', info['ev'].fn.loc(info['ev'].node), info['wit']))
    return obs


# --------------------------------------------------------------------- L4
SLEEP_NAMES = {'time.sleep'}
USER_CALLEES = {'func', 'sleep_func'}
L4_EXEMPT = {
    'core.Cache.reset': "1 ms busy-retry sleep, executes only on 'database is locked' which the lock holder cannot get",
    'core.Cache._sql_retry.<locals>._execute_with_retry': 'same busy-retry sleep',
}


def _blocking(ev):
    if ev.kind == 'EXT' and ev.d['name'] in SLEEP_NAMES:
        return 'sleep'
    if ev.kind == 'FOR' and ev.d['iter'].k == 'param' and ev.d['iter'].a[0] in ('iterable', 'iterator', 'items',
                                                                                 'values', 'other'):
        return 'user-iterable'
    if ev.kind == 'UCALL':
        c = ev.d['callee']
        if c.k in ('free', 'param') and c.a[0] in USER_CALLEES:
            return 'sleep' if c.a[0] == 'sleep_func' else 'user-call'
    return None


@rule('L4', floor=6, title='nothing sleeps or calls user code while the write lock is held')
def l4(ctx):
    sites = {}
    for f in ctx.prog.all_funcs():
        for p in ctx.paths(f, 'default'):
            for ev in p.trace:
                b = _blocking(ev)
                if b is None:
                    continue
                k = (ev.fn.qual, ev.line, ev.node.col_offset)
                info = sites.setdefault(k, {'kind': b, 'fn': ev.fn, 'stack': ev.stack, 'node': ev.node, 'in': False, 'wit': None})
                if ev.txn:
                    info['in'] = True
                    info['wit'] = info['wit'] or fmt_trace(p.trace)
    obs = []
    ordinal = {}
    for k in sorted(sites):
        info = sites[k]
        base = '%s/%s' % (info['fn'].qual, info['kind'])
        ordinal[base] = ordinal.get(base, 0) + 1
        key = base if ordinal[base] == 1 else '%s#%d' % (base, ordinal[base])
        if info['fn'].qual in L4_EXEMPT:
            obs.append(Ob('L4', key, True, 'exempt: ' + L4_EXEMPT[info['fn'].qual], info['fn'].loc(info['node']),
                          nontrivial=False))
            continue
        obs.append(Ob('L4', key, not info['in'],
                      '%s inside a transaction block: every other client of the cache is blocked (or times out) for '
                      'the whole duration%s' % (info['kind'], '; and if the caller\'s iterable raises part-way, the '
                      'rollback undoes the elements already consumed (a deque keeps them)'
                      if info['kind'] == 'user-iterable' else ''), info['fn'].loc(info['node']), info['wit']))
    return obs


# --------------------------------------------------------------------- L5 / L8
def _policy_get_is_none(ctx, chosen):
    e, m = ctx.prog.const_expr('core', 'EVICTION_POLICY')
    if e is None:
        raise AnalysisError('anchor vanished: EVICTION_POLICY')
    from .interp import Interp
    pol = Interp(ctx.prog).fold(e, 'core')
    return pol[chosen].get('get') is None


def _stat_tests(trace):
    return [ev for ev in trace if ev.kind == 'TEST' and ev.d['val'].k == 'selfattr' and ev.d['val'].a[1] == 'statistics']


def _is_counter_update(ev, which):
    st = ev.d.get('stmt')
    if st is None or st.kind != 'update' or (st.table or '').lower() != 'settings':
        return False
    w = st.where
    return w is not None and w[0] == 'cmp' and w[3][0] == 'str' and w[3][1] == which


@rule('L5', floor=1, title='lock-free get path only when nothing must be written (statistics off, policy has no get-update)')
def l5(ctx):
    f = ctx.method('Cache', 'get')
    nfast = 0
    bad = None
    why = ''
    for p in ctx.paths(f, 'default'):
        if p.kind == 'cut':
            continue
        selects = [ev for ev in sql_events(p.trace, 'select', 'Cache')]
        if not selects:
            continue
        if any(ev.kind == 'TXN_ENTER' for ev in p.trace):
            continue
        nfast += 1
        st = _stat_tests(p.trace)
        if not st or any(t.d['truth'] for t in st):
            bad, why = p, 'statistics may be on'
            continue
        for ev in p.trace:
            if ev.kind == 'CHOICE' and ev.d['key'].k == 'selfattr' and ev.d['key'].a[1] == 'eviction_policy':
                if not _policy_get_is_none(ctx, ev.d['chosen']):
                    bad, why = p, 'policy %s needs an access update' % ev.d['chosen']
        if any(ev.kind == 'SQL' and _is_row_write(ev) for ev in p.trace):
            bad, why = p, 'the fast path writes'
        if not any(ev.kind == 'CHOICE' for ev in p.trace):
            bad, why = p, 'the policy is not consulted'
    return [Ob('L5', 'Cache.get/fast-path-eligibility', bad is None and nfast > 0,
               'get takes the path without a transaction although %s: the hit/miss counter or the recency update is '
               'skipped or executed without the lock' % why, f.loc(), fmt_trace(bad.trace) if bad else None)]


@rule('L8', floor=3, title='statistics: exactly one hit xor miss per transactional get, none with statistics off')
def l8(ctx):
    f = ctx.method('Cache', 'get')
    res = {'one-counter-per-get': (True, None), 'miss-iff-absent-or-file-gone': (True, None),
           'off-means-no-counter': (True, None)}
    n = 0
    for p in ctx.paths(f, 'default'):
        if p.kind in ('cut', 'raise'):
            continue
        if not any(ev.kind == 'TXN_ENTER' for ev in p.trace):
            continue
        st = _stat_tests(p.trace)
        on = any(t.d['truth'] for t in st)
        hits = [ev for ev in p.trace if ev.kind == 'SQL' and _is_counter_update(ev, 'hits')]
        misses = [ev for ev in p.trace if ev.kind == 'SQL' and _is_counter_update(ev, 'misses')]
        sel = [ev for ev in sql_events(p.trace, 'select', 'Cache')]
        if not sel:
            continue
        n += 1
        rows_empty = any(ev.kind == 'TEST' and ev.d['val'].k in ('rows', 'not') and
                         ((ev.d['val'].k == 'rows' and not ev.d['truth']) or
                          (ev.d['val'].k == 'not' and ev.d['val'].a[0].k == 'rows' and ev.d['truth']))
                         for ev in p.trace)
        file_gone = any(ev.kind == 'CATCH' and 'OSError' in ev.d['handler'] for ev in p.trace)
        if on:
            if len(hits) + len(misses) != 1:
                res['one-counter-per-get'] = (False, fmt_trace(p.trace))
            elif (rows_empty or file_gone) != bool(misses):
                res['miss-iff-absent-or-file-gone'] = (False, fmt_trace(p.trace))
            if any(not ev.txn for ev in hits + misses):
                res['one-counter-per-get'] = (False, fmt_trace(p.trace))
        else:
            if hits or misses:
                res['off-means-no-counter'] = (False, fmt_trace(p.trace))
    msgs = {'one-counter-per-get': 'a transactional get with statistics on does not update exactly one of hits/misses',
            'miss-iff-absent-or-file-gone': 'hit/miss classification is wrong: a miss must be counted exactly when no '
                                            'live row was found or its value file vanished',
            'off-means-no-counter': 'a counter is updated although statistics are off'}
    return [Ob('L8', 'Cache.get/' + k, ok and n > 0, msgs[k], f.loc(), wit) for k, (ok, wit) in res.items()]


# --------------------------------------------------------------------- L6
@rule('L6', floor=5, title='connections are thread-local and re-opened when the process id changes')
def l6(ctx):
    con = ctx.prog.roles['con_getter']
    init = ctx.method('Cache', '__init__')
    obs = []
    # the holder attribute is a threading.local
    holder = None
    for p in ctx.paths(con, 'plain'):
        for ev in p.trace:
            if ev.kind == 'SETATTR' and ev.d['val'].k == 'ext' and ev.d['val'].a[0] == 'sqlite3.connect':
                b = ev.d['base']
                if b.k == 'selfattr':
                    holder = b.a[1]
                else:
                    holder = holder or ('!' + b.k)
    is_local = False
    for n in walk_shallow(init.node):
        if isinstance(n, ast.Assign) and isinstance(n.value, ast.Call) and holder and \
                any(dotted(t) == 'self.' + holder for t in n.targets) and \
                ctx.prog.resolve_name('core', dotted(n.value.func) or '') == 'threading.local':
            is_local = True
    obs.append(Ob('L6', 'connection-stored-on-threading.local', bool(holder) and not str(holder).startswith('!')
                  and is_local, 'the SQLite connection is not stored (only) on a threading.local attribute: two '
                  'threads would share one connection and one transaction state', con.loc()))
    # the connection is opened in autocommit mode (explicit BEGIN IMMEDIATE needs it) with the object's timeout
    okc, nc = True, 0
    for p in ctx.paths(con, 'plain'):
        for ev in p.trace:
            if ev.kind == 'EXT' and ev.d['name'] == 'sqlite3.connect':
                nc += 1
                iso = ev.d['kwargs'].get('isolation_level')
                to = ev.d['kwargs'].get('timeout')
                if not (iso is not None and iso.is_const and iso.val is None):
                    okc = False
                if not (to is not None and to.k == 'selfattr' and to.a[1] == '_timeout'):
                    okc = False
                # the database is the plain file <directory>/<DBNAME>: no URI form (an unencoded path with #, ? or %
                # would name another file), no uri=True
                a0 = ev.d['args'][0] if ev.d['args'] else ev.d['kwargs'].get('database')
                uri = ev.d['kwargs'].get('uri')
                plain = a0 is not None and a0.k == 'ext' and a0.a[0] == 'os.path.join'
                if plain:
                    ja = p.trace[a0.a[1]].d['args']
                    plain = len(ja) == 2 and ja[0].k == 'selfattr' and ja[0].a[1] == '_directory' and \
                        ((ja[1].is_const and isinstance(ja[1].val, str)) or ja[1].k == 'modconst')
                if not plain or not (uri is None or (uri.is_const and not uri.val)):
                    okc = False
    # the lock timeout is owned by the `timeout` argument: no stored sqlite_* setting may replace it on every connection
    try:
        ce, cm = ctx.prog.const_expr('core', 'DEFAULT_SETTINGS')
        names = set(ctx.fold(ce, cm)) if ce is not None else set()
    except ValueError:
        names = {k.value for k in getattr(ce, 'keys', []) if isinstance(k, ast.Constant)}
    obs.append(Ob('L6', 'no-busy-timeout-setting', 'sqlite_busy_timeout' not in names,
                  'DEFAULT_SETTINGS contains sqlite_busy_timeout: every connection replays the stored sqlite_* settings as '
                  'PRAGMAs, so PRAGMA busy_timeout overrides the timeout the object was created with - Cache(timeout=0.2) '
                  'no longer raises Timeout promptly and FanoutCache/DjangoCache block instead of reporting failure',
                  con.loc()))
    obs.append(Ob('L6', 'connect-autocommit-with-timeout', okc and nc > 0,
                  'sqlite3.connect is not called on the plain path join(self._directory, DBNAME) with isolation_level=None and timeout=self._timeout: implicit '
                  'transactions of the sqlite3 module would hold or break the explicit BEGIN IMMEDIATE protocol, or the '
                  'configured lock timeout would not apply', con.loc()))
    # pid check: mismatch -> close and re-stamp
    ok = True
    wit = None
    n = 0
    for p in ctx.paths(con, 'plain'):
        if p.kind == 'cut':
            continue
        for i, ev in enumerate(p.trace):
            if ev.kind == 'TEST' and ev.d['val'].k == 'cmp':
                ops, vals = ev.d['val'].a
                if len(ops) == 1 and ops[0] in ('NotEq', 'Eq') and any(
                        v.k == 'ext' and v.a[0] == 'os.getpid' for v in vals):
                    differs = ev.d['truth'] if ops[0] == 'NotEq' else not ev.d['truth']
                    if differs:
                        n += 1
                        rest = p.trace[i:]
                        closed = any(True for _ in call_events(rest, 'Cache.close'))
                        stamped = any(e.kind == 'SETATTR' and e.d['attr'] == 'pid' and e.d['val'].k == 'ext'
                                      and e.d['val'].a[0] == 'os.getpid' for e in rest)
                        if not (closed and stamped):
                            ok = False
                            wit = fmt_trace(p.trace)
    obs.append(Ob('L6', 'pid-mismatch-closes-and-restamps', ok and n > 0,
                  'after fork the inherited connection is not dropped (close + record new pid) before use: parent and '
                  'child would share one SQLite connection', con.loc(), wit))
    # every path returns a connection that is either the stored one or a fresh connect that was stored - and it was
    # obtained after the last close() of the path (a reference read before the fork check is a closed connection)
    ok = True
    for p in ctx.paths(con, 'plain'):
        if p.kind == 'return':
            v = p.outcome[1]
            if not (v.k == 'ext' and v.a[0] in ('sqlite3.connect', 'builtins.getattr')):
                ok = False
                continue
            closes = [e.seq for e in call_events(p.trace, 'Cache.close')]
            if closes and isinstance(v.a[1], int) and v.a[1] < max(closes):
                ok = False
    obs.append(Ob('L6', 'returns-thread-connection', ok, 'the getter returns something other than the thread\'s stored '
                  'connection, or a reference it read before closing the inherited connection after a fork (the '
                  'first operation in the child then fails with "Cannot operate on a closed database")', con.loc()))
    # __init__ works with its own (zero) timeout; the connection it leaves behind must carry the configured one:
    # either it is closed so that the next use reconnects with self._timeout, or its busy timeout is set to
    # timeout * 1000 (PRAGMA busy_timeout takes milliseconds)
    ok, wit, n = True, None, 0
    for p in ctx.paths(init, 'plain'):
        if p.kind not in ('return', 'next'):
            continue
        sets = [e for e in p.trace if e.kind == 'SETATTR' and e.d['attr'] == '_timeout' and e.d['base'].k == 'self']
        if not sets:
            continue
        n += 1
        last = sets[-1]
        final_ok = last.d['val'].k == 'param' and last.d['val'].a[0] == 'timeout'
        if len(sets) > 1 and any(x.d['val'] != last.d['val'] for x in sets[:-1]):
            # statements were executed under another timeout: that connection must not survive
            sql_before = [e for e in p.trace[:last.seq] if e.kind in ('SQL', 'CONGET')]
            closes = [e for e in call_events(p.trace, 'Cache.close') if (not sql_before or e.seq > sql_before[-1].seq)]
            closed = any(e.seq < last.seq or not [x for x in p.trace[last.seq:e.seq] if x.kind == 'SQL'] for e in closes)
            pragma_ms = False
            for e in p.trace:
                st = e.d.get('stmt') if e.kind == 'SQL' else None
                if st is not None and st.kind in ('pragma', 'pragma_set') and (st.pragma or '').lower() == 'busy_timeout':
                    vals = list(values_in(e.d.get('stmtv'))) if e.d.get('stmtv') is not None else []
                    pragma_ms = any(x.k == 'term' and x.a[0] == 'Mult' and any(y.is_const and y.val == 1000 for y in x.a[1])
                                    and any(y.k == 'param' and y.a[0] == 'timeout' for z in x.a[1] for y in values_in(z))
                                    for x in vals)
            if not (closed or pragma_ms):
                final_ok = False
        if not final_ok:
            ok, wit = False, fmt_trace(p.trace[-40:])
    obs.append(Ob('L6', 'init-leaves-connection-with-configured-timeout', ok and n > 0,
                  'Cache.__init__ runs its statements under its own timeout and then neither closes that connection '
                  '(so that the next use reconnects with timeout=self._timeout) nor sets its busy timeout to '
                  'timeout * 1000 ms: the constructing thread keeps a connection with the wrong lock timeout and raises '
                  'Timeout almost immediately (or waits far too long)', init.loc(), wit))
    # close(): closes and forgets the thread's connection
    close = ctx.method('Cache', 'close')
    ok = False
    for p in ctx.paths(close, 'plain'):
        closed = [e for e in p.trace if (e.kind == 'MCALL' and e.d['name'] == 'close')]
        forgot = [e for e in p.trace if e.kind == 'EXT' and e.d['name'] == 'builtins.delattr' and e.d['args']
                  and e.d['args'][0].k == 'selfattr' and e.d['args'][0].a[1] == holder]
        forgot += [e for e in p.trace if e.kind == 'DELATTR' and e.d['base'].k == 'selfattr'
                   and e.d['base'].a[1] == holder and e.d['attr'] == 'con']
        if closed and forgot:
            ok = True
    obs.append(Ob('L6', 'close-forgets-connection', ok, 'close() does not both close and forget the thread-local '
                  'connection (a closed object must reopen transparently)', close.loc()))
    return obs


# --------------------------------------------------------------------- L7
STORAGE_CALLS = {'builtins.open', 'open', 'os.remove', 'os.unlink', 'os.rmdir', 'os.removedirs', 'shutil.rmtree',
                 'sqlite3.connect', 'os.rename', 'os.replace', 'os.truncate', 'io.open', 'os.open', 'os.makedirs',
                 'os.mkdir', 'shutil.move', 'shutil.copy', 'shutil.copyfile'}
PRIVATE_STORAGE_ATTRS = {'_sql', '_sql_retry', '_con', '_transact', '_row_insert', '_row_update', '_cull',
                         '_select_delete', '_local', '_txn_id', '_write'}
L7_EXEMPT = {('persistent', 'Deque.reverse', 'shutil.rmtree'): "removes the temporary deque's own directory, not a "
                                                               "value file of this cache"}


def layer_breaks(prog, module, tree, roles=None):
    """Storage access outside core: (qualname, what, node)."""
    out = []
    priv = set(PRIVATE_STORAGE_ATTRS)
    if roles:
        priv |= {f.name for k, f in roles.items() if k != 'public_transact'}
    for cname in ('Cache', 'Disk'):
        ci = prog.classes.get(cname)
        if ci is not None:
            priv |= {n for n, f in ci.methods.items() if n.startswith('_') and not n.startswith('__')
                     and not f.is_property}

    def visit(node, qual):
        for child in ast.iter_child_nodes(node):
            q = qual
            if isinstance(child, (ast.FunctionDef, ast.ClassDef)):
                q = (qual + '.' if qual else '') + child.name
            if isinstance(child, ast.Call):
                d = dotted(child.func)
                if d:
                    full = prog.resolve_name(module, d) if module in prog.modules else d
                    if full in STORAGE_CALLS or d in STORAGE_CALLS:
                        out.append((qual, full, child))
                if isinstance(child.func, ast.Attribute) and child.func.attr in ('execute', 'executemany',
                                                                                  'executescript'):
                    out.append((qual, 'sql:' + child.func.attr, child))
            if isinstance(child, ast.Attribute) and child.attr in priv:
                out.append((qual, 'private:' + child.attr, child))
            visit(child, q)
    visit(tree, '')
    return out


_FIXTURE = '''
import os, shutil
class X:
    def f(self):
        self._cache._sql('DELETE FROM Cache')
        os.remove(self._cache.directory + '/x')
        with open('y', 'w') as g:
            g.write('1')
        con.execute('SELECT 1')
'''


@rule('L7', floor=4, title='layering: only core.py executes SQL or touches files in the cache directory')
def l7(ctx):
    fx = layer_breaks(ctx.prog, 'fixture', ast.parse(_FIXTURE))
    if len(fx) < 4:
        raise AnalysisError('L7 positive fixture matched %d constructs (expected >= 4): matcher is blind' % len(fx))
    obs = []
    for m in ('fanout', 'persistent', 'recipes', 'djangocache'):
        mi = ctx.prog.modules[m]
        found = layer_breaks(ctx.prog, m, mi.tree, ctx.prog.roles)
        bad = []
        for qual, what, node in found:
            if (m, qual, what) in L7_EXEMPT:
                continue
            bad.append((qual, what, node))
        obs.append(Ob('L7', m, not bad,
                      'module %s reaches storage directly: %s' % (m, '; '.join(
                          '%s uses %s (line %d)' % (q, w, n.lineno) for q, w, n in bad[:5])),
                      'diskcache/%s.py:%d' % (m, bad[0][2].lineno if bad else 1)))
    return obs
