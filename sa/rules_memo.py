"""M rules: memoization key builder and wrapper shape."""
import ast

from .framework import rule, Ob, fmt_trace, values_in
from .model import AnalysisError, walk_shallow, dotted
from .values import V, C


def _chain(v):
    """Operands of a left-nested Add chain, in order."""
    if v.k == 'term' and v.a[0] == 'Add':
        l, r = v.a[1]
        return _chain(l) + [r]
    return [v]


def _seg_class(v):
    vs = values_in(v)
    if any(x.k == 'typeof' for x in vs) or any(
            x.k == 'term' and x.a[0] == 'map' and x.a[1] and x.a[1][0].k == 'builtin' and x.a[1][0].a[0] == 'type'
            for x in vs):
        return 'types'
    if v.k == 'param' and v.a[0] == 'base':
        return 'base'
    if any((x.k == 'term' and x.a[0] == 'sorted') or (x.k == 'param' and x.a[0] == 'kwargs') or
           (x.k == 'mcall' and x.a[0] == 'items') for x in vs):
        return 'items'
    if any(x.k == 'param' and x.a[0] == 'args' for x in vs):
        return 'args'
    if (v.k == 'tuple' and v.a[0]) or (v.is_const and isinstance(v.val, tuple) and v.val) or v.k == 'modconst':
        return 'sep'
    if v.k == 'tuple' or (v.is_const and v.val == ()):
        return 'empty'
    return 'other'


def _forgeable(sep):
    """Can a caller-supplied positional/keyword value equal this separator element?"""
    elems = []
    if sep.k == 'tuple':
        elems = list(sep.a[0])
    elif sep.is_const and isinstance(sep.val, tuple):
        return True if sep.val else True
    else:
        elems = [sep]
    if not elems:
        return True
    for e in elems:
        if e.k == 'modconst' or e.k == 'new' or (e.k == 'ext' and e.a[0] == 'builtins.object'):
            return False      # a module-private sentinel object: no argument value equals it by accident
    return True


@rule('M1', floor=2, title='memoize key builder: positional and keyword segments are separated by an unforgeable delimiter')
def m1(ctx):
    f = ctx.func('core.args_to_key')
    n = 0
    state = None   # None / 'forgeable' / 'missing'
    wit = None
    types_last = True
    uncond = True
    wit_u = None
    for p in ctx.paths(f, 'plain'):
        if p.kind != 'return':
            continue
        ops = [o for o in _chain(p.outcome[1]) if _seg_class(o) != 'empty']
        cl = [_seg_class(o) for o in ops]
        if 'types' in cl:
            first = cl.index('types')
            if any(c != 'types' for c in cl[first:]):
                types_last = False
        if 'args' not in cl:
            continue
        # the builder appends the separator unconditionally (items may follow on other paths)
        ai = cl.index('args')
        after = cl[ai + 1:]
        if not after or after[0] != 'sep':
            uncond = False
            wit_u = fmt_trace(p.trace)
        nxt = [c for c in after if c != 'types']
        n += 1
        if 'items' in after:
            between = cl[ai + 1: ai + 1 + after.index('items')]
            seps = [ops[ai + 1 + i] for i, c in enumerate(between) if c == 'sep']
            if not seps:
                state = 'missing'
                wit = fmt_trace(p.trace)
            elif all(_forgeable(s) for s in seps) and state != 'missing':
                state = 'forgeable'
                wit = fmt_trace(p.trace)
    if n == 0:
        raise AnalysisError('M1: key builder shape not recognised (no positional segment found)')
    from .framework import one_shot_reuse
    reuse = one_shot_reuse(f.node)
    return [
        Ob('M1', 'args_to_key/separator-present', state != 'missing',
           'positional values are followed directly by keyword name/value pairs with no delimiter: f(1, "a", 2) and '
           'f(1, a=2) build the same key', f.loc(), wit if state == 'missing' else None),
        Ob('M1', 'args_to_key/separator-unforgeable', state != 'forgeable',
           'the delimiter between positional values and keyword pairs is the literal None, which is itself a legal '
           'argument value: f(1, None, "a") and f(1, a=None) build the same key, so a variadic function is served '
           'another call\'s result', f.loc(), wit if state == 'forgeable' else None),
        Ob('M1', 'args_to_key/separator-unconditional', uncond,
           'the delimiter after the positional values is appended only on some paths (e.g. only when keyword '
           'arguments are present): a positional-only call such as f(1, None, "a", 2) then builds the same key as '
           'f(1, a=2)', f.loc(), wit_u),
        Ob('M1', 'args_to_key/types-trail', types_last, 'type segments are not the trailing segments of the key', f.loc()),
        Ob('M1', 'args_to_key/one-shot-iterators-consumed-once', not reuse,
           'a generator/iterator bound to a local is consumed more than once on one path (%s): the second consumer sees '
           'it empty, so the segment it was to contribute (argument values or their types) is missing from the key and '
           'calls that differ only there share an entry' % (reuse,), f.loc()),
    ]


def _filter_tests(trace, source):
    """TEST events `X not in ignore` (assumed true) where X derives from `source` ('args' index or 'kwargs' name)."""
    out = []
    for e in trace:
        if e.kind != 'TEST':
            continue
        v = e.d['val']
        truth = e.d['truth']
        while v.k == 'not':
            v = v.a[0]
            truth = not truth
        if v.k != 'cmp' or len(v.a[0]) != 1 or v.a[0][0] not in ('In', 'NotIn'):
            continue
        x, cont = v.a[1]
        if not (cont.k == 'param' and cont.a[0] == 'ignore'):
            continue
        kept = truth if v.a[0][0] == 'NotIn' else (not truth)
        xs = values_in(x)
        if source == 'args':
            hit = any(y.k == 'term' and y.a[0] == 'enumerate' and y.a[1] and y.a[1][0].k == 'param'
                      and y.a[1][0].a[0] == 'args' for y in xs) and x.k in ('field', 'item') and x.a[1] in (0, C(0))
        else:
            hit = any((y.k == 'mcall' and y.a[0] in ('items', 'keys')) or (y.k == 'param' and y.a[0] == 'kwargs')
                      for y in xs) and not any(y.k == 'term' and y.a[0] == 'enumerate' for y in xs)
            if x.k in ('field', 'item') and x.a[1] not in (0, C(0)):
                hit = False
        if hit and kept:
            out.append(e)
    return out


@rule('M2', floor=5, title='typed appends the type of every kept value; ignore filters positions and names before both')
def m2(ctx):
    f = ctx.func('core.args_to_key')
    res = {'ignore/positional': [True, 0], 'ignore/keyword': [True, 0], 'typed/positional': [True, 0],
           'typed/keyword': [True, 0], 'keyword/sorted-after-filter': [True, 0], 'untyped/no-types': [True, 0]}
    wit = {}
    for p in ctx.paths(f, 'plain'):
        if p.kind != 'return':
            continue
        ops = [o for o in _chain(p.outcome[1]) if _seg_class(o) != 'empty']
        cl = [_seg_class(o) for o in ops]
        typed = p.st.facts.get(('truthy', V('param', 'typed', 'core')))
        # positional values kept in the key
        argsops = [o for o, c in zip(ops, cl) if c == 'args']
        has_args = any(any(y.k == 'term' and y.a[0] == 'enumerate' for y in values_in(o)) or
                       any(y.k == 'elem' for y in values_in(o)) for o in argsops)
        # the path may have assumed that there are no positional (keyword) arguments at all
        if argsops and all(p.st.facts.get(('truthy', o)) is False or
                           p.st.facts.get(('truthy', V('param', 'args', 'core'))) is False for o in argsops):
            has_args = False
        if has_args:
            res['ignore/positional'][1] += 1
            if not _filter_tests(p.trace, 'args'):
                res['ignore/positional'][0] = False
                wit['ignore/positional'] = fmt_trace(p.trace)
        itemops = [o for o, c in zip(ops, cl) if c == 'items']
        if itemops:
            res['ignore/keyword'][1] += 1
            ft = _filter_tests(p.trace, 'kwargs')
            if not ft:
                res['ignore/keyword'][0] = False
                wit['ignore/keyword'] = fmt_trace(p.trace)
            res['keyword/sorted-after-filter'][1] += 1
            srt = [y for o in itemops for y in values_in(o) if y.k == 'term' and y.a[0] == 'sorted']
            good = bool(srt)
            if good and ft:
                # what is sorted was produced after the filter ran
                feeds = [y for t in srt for y in values_in(t) if y.k in ('mcall',) and isinstance(y.a[1], int)]
                lists = [y for t in srt for y in values_in(t) if y.k in ('list', 'mdict', 'comp')]
                if feeds and not any(fe.a[1] > ft[0].seq for fe in feeds) and not lists:
                    good = False
            if not good:
                res['keyword/sorted-after-filter'][0] = False
                wit['keyword/sorted-after-filter'] = fmt_trace(p.trace)
        typeops = [o for o, c in zip(ops, cl) if c == 'types']
        if typed is True:
            res['typed/positional'][1] += 1
            pos_t = [o for o in typeops if any(y.k == 'param' and y.a[0] == 'args' for y in values_in(o))
                     or any(y.k in ('elem',) and any(z.k == 'tuple' or z.k == 'list' for z in values_in(y)) for y in values_in(o))]
            if has_args and not pos_t and not typeops:
                res['typed/positional'][0] = False
                wit['typed/positional'] = fmt_trace(p.trace)
            if has_args and typeops and not any(
                    any(y.k == 'param' and y.a[0] == 'args' for y in values_in(o)) for o in typeops):
                res['typed/positional'][0] = False
                wit['typed/positional'] = fmt_trace(p.trace)
            # a slice / partial iteration of the kept positionals loses types
            for o in typeops:
                if any(y.k == 'slice' for y in values_in(o)):
                    res['typed/positional'][0] = False
                    wit['typed/positional'] = fmt_trace(p.trace)
            kw_tests = [e for e in p.trace if e.kind == 'TEST' and (
                e.d['val'].k in ('comp', 'mdict') or (e.d['val'].k == 'param' and e.d['val'].a[0] == 'kwargs'))]
            if itemops and all(e.d['truth'] for e in kw_tests):
                res['typed/keyword'][1] += 1
                if not any(any((y.k == 'term' and y.a[0] == 'sorted') or (y.k == 'mcall' and y.a[0] == 'items')
                               for y in values_in(o)) for o in typeops):
                    res['typed/keyword'][0] = False
                    wit['typed/keyword'] = fmt_trace(p.trace)
        elif typed is False:
            res['untyped/no-types'][1] += 1
            if typeops:
                res['untyped/no-types'][0] = False
    msgs = {
        'ignore/positional': 'positional arguments are kept in the key without having been filtered by their index '
                             'against `ignore`',
        'ignore/keyword': 'keyword arguments are kept in the key without having been filtered by name against `ignore`',
        'typed/positional': 'with typed=True the type of every kept positional value is not appended: f(1) and f(1.0) '
                            'share an entry',
        'typed/keyword': 'with typed=True the type of every kept keyword value is not appended',
        'keyword/sorted-after-filter': 'keyword pairs are not sorted (after filtering): the key depends on the order in '
                                       'which keywords were written',
        'untyped/no-types': 'types are appended although typed is false',
    }
    return [Ob('M2', k, ok and n > 0, msgs[k], f.loc(), wit.get(k)) for k, (ok, n) in res.items()]


# ---------------------------------------------------------------------- M3
def _wrappers(ctx):
    out = []
    for q, kind in (('core.Cache.memoize.<locals>.decorator.<locals>.wrapper', 'plain'),
                    ('djangocache.DjangoCache.memoize.<locals>.decorator.<locals>.wrapper', 'django'),
                    ('recipes.memoize_stampede.<locals>.decorator.<locals>.wrapper', 'stampede')):
        out.append((ctx.func(q), kind))
    return out


def _expiry_cases(trace, pname):
    """Cases of the closure variable `pname` (none / neg / zero / pos / default marker) consistent with
    the branch decisions taken on this path; None if no decision mentions it."""
    cases = {'none', 'neg', 'zero', 'pos', 'default'}
    seen = False
    num = {'neg': -1, 'zero': 0, 'pos': 1}
    for e in trace:
        if e.kind != 'TEST':
            continue
        v = e.d['val']
        truth = e.d['truth']
        while v.k == 'not':
            v = v.a[0]
            truth = not truth
        if v.k != 'cmp' or len(v.a[0]) != 1 or len(v.a[1]) != 2:
            continue
        a, b = v.a[1]

        def is_var(x):
            return x.k == 'free' and x.a[0] == pname
        if not (is_var(a) or is_var(b)):
            continue
        seen = True
        op = v.a[0][0]
        other = b if is_var(a) else a
        flip = not is_var(a)
        ok_cases = set()
        for c in cases:
            if other.is_const and other.val is None and op in ('Is', 'IsNot'):
                r = (c == 'none') if op == 'Is' else (c != 'none')
            elif other.is_const and isinstance(other.val, (int, float)) and not isinstance(other.val, bool) \
                    and other.val == 0 and op in ('Lt', 'LtE', 'Gt', 'GtE', 'Eq', 'NotEq'):
                if c in ('none', 'default'):
                    # comparing None with 0 raises; the default marker is an object: the path cannot be in this case
                    # unless the comparison is (in)equality
                    if op in ('Eq', 'NotEq'):
                        r = op == 'NotEq'
                    else:
                        continue
                else:
                    d = num[c] if not flip else -num[c]
                    r = {'Lt': d < 0, 'LtE': d <= 0, 'Gt': d > 0, 'GtE': d >= 0, 'Eq': d == 0, 'NotEq': d != 0}[op]
            elif op in ('Eq', 'NotEq', 'Is', 'IsNot') and other.k in ('extfn', 'modconst', 'global', 'const'):
                # comparison with the DEFAULT_TIMEOUT marker
                r = (c == 'default') if op in ('Eq', 'Is') else (c != 'default')
            else:
                r = truth
            if r == truth:
                ok_cases.add(c)
        cases = ok_cases
    return cases if seen else None


def _is_user_call(e):
    if e.kind == 'UCALL' and e.d['callee'].k == 'free' and e.d['callee'].a[0] == 'func':
        return True
    if e.kind == 'CALL' and any(t.name == 'timer' for t in e.d['targets']):
        return True
    return False


def _passes_all_args(e):
    args = e.d['args']
    sk = e.d.get('starkw')

    def is_args(v, name):
        return (v.k == 'param' and v.a[0] == ('*' if name == 'args' else '**') + name) or \
            (v.k == 'free' and v.a[0] == name)
    return len(args) == 1 and args[0].k == 'star' and is_args(args[0].a[0], 'args') \
        and sk is not None and is_args(sk, 'kwargs') and not e.d['kwargs']


@rule('M3', floor=12, title='memoize wrappers: sentinel lookup, call through with the same arguments, same key stored, zero expiry stores nothing')
def m3(ctx):
    obs = []
    for f, kind in _wrappers(ctx):
        res = {'lookup': [True, None], 'call-through': [True, None], 'returns': [True, None],
               'same-key': [True, None], 'store-guard': [True, None]}
        nmiss = nhit = 0
        for p in ctx.paths(f, 'plain'):
            if p.kind != 'return':
                continue
            tr = p.trace
            keyev = [e for e in tr if e.kind == 'MCALL' and e.d['name'] == '__cache_key__' and e.d['recv'].k == 'func'
                     and e.d['recv'].a[0] == f.qual]
            gets = [e for e in tr if e.kind == 'CALL' and e.d['name'] == 'get']
            sets = [e for e in tr if e.kind == 'CALL' and e.d['name'] == 'set' and not e.d.get('inlined')]
            users = [e for e in tr if _is_user_call(e) and not e.d.get('inlined')]
            if len(keyev) != 1 or not _passes_all_args(keyev[0]) or len(gets) != 1:
                res['lookup'] = [False, fmt_trace(tr)]
                continue
            keyv = V('mcall', '__cache_key__', keyev[0].seq)
            g = gets[0]
            dflt = g.d['kwargs'].get('default') or (g.d['args'][1] if len(g.d['args']) > 1 else None)
            retry = g.d['kwargs'].get('retry')
            if not (g.d['args'] and g.d['args'][0] == keyv and dflt is not None and dflt.k == 'modconst'
                    and dflt.a[1] == 'ENOVAL' and retry is not None and retry.is_const and retry.val is True):
                res['lookup'] = [False, fmt_trace(tr)]
            rv = p.outcome[1]
            if users:
                nmiss += 1
                if len(users) != 1 or not _passes_all_args(users[0]):
                    res['call-through'] = [False, fmt_trace(tr)]
                u = users[0]
                uval = V('ucall', u.seq) if u.kind == 'UCALL' else V('ret', u.seq, tuple(sorted(t.qual for t in u.d['targets'])))
                if kind == 'stampede':
                    # the timing helper returns (result, seconds); when it is inlined the pair is seen directly
                    okr = rv.k in ('item', 'field') and rv.a[0] == uval and rv.a[1] in (0, C(0)) or \
                        (u.kind == 'UCALL' and rv == uval)
                else:
                    okr = rv == uval
                if not okr:
                    res['returns'] = [False, fmt_trace(tr)]
                for s in sets:
                    a = s.d['args']
                    same_val = len(a) >= 2 and (a[1] == uval or (kind == 'stampede' and u.kind == 'UCALL'
                                                               and a[1].k == 'tuple' and len(a[1].a[0]) == 2
                                                               and a[1].a[0][0] == uval))
                    if not (len(a) >= 2 and a[0] == keyv and same_val):
                        res['same-key'] = [False, fmt_trace(tr)]
                if kind in ('plain', 'django'):
                    # the store happens exactly when expiry is None / default marker / > 0
                    pname = 'expire' if kind == 'plain' else 'timeout'
                    cases = _expiry_cases(tr, pname)
                    if cases is None:
                        res['store-guard'] = [False, fmt_trace(tr)]
                    elif sets and not cases <= {'none', 'pos', 'default'}:
                        res['store-guard'] = [False, fmt_trace(tr)]
                    elif not sets and not cases <= {'neg', 'zero'}:
                        res['store-guard'] = [False, fmt_trace(tr)]
                else:
                    if len(sets) != 1:
                        res['same-key'] = [False, fmt_trace(tr)]
            else:
                nhit += 1
                # served from the cache: the value returned is (part of) the lookup result
                gv = V('ret', g.seq, tuple(sorted(t.qual for t in g.d['targets'])))
                if not any(x == gv for x in values_in(rv)):
                    res['returns'] = [False, fmt_trace(tr)]
        msgs = {
            'lookup': 'the wrapper does not look up key = __cache_key__(*args, **kwargs) with default=ENOVAL and '
                      'retry=True exactly once',
            'call-through': 'on a miss the undecorated function is not called exactly once with (*args, **kwargs)',
            'returns': 'a return path yields neither the cached value nor the result of this call',
            'same-key': 'the result is stored under a different key (or a different value) than the one looked up',
            'store-guard': 'the result is stored although the expiry is zero/negative, or not stored for a valid expiry',
        }
        for k, (ok, wit) in res.items():
            if kind == 'stampede' and k == 'store-guard':
                continue
            obs.append(Ob('M3', '%s/%s' % (kind, k), ok and nmiss > 0 and nhit > 0, msgs[k], f.loc(), wit))
    # memoize_stampede: every helper closure calls through with all arguments, and the refresh thread gets them
    outer = ctx.func('recipes.memoize_stampede.<locals>.decorator')
    ok, why = True, ''
    ncalls = 0
    nthreads = 0
    nmarkers = 0

    def all_nested(fn):
        for g in fn.nested.values():
            yield g
            yield from all_nested(g)
    nested = list(all_nested(outer))
    called = set()
    for g in nested:
        for n in ast.walk(g.node):
            if isinstance(n, ast.Call) and isinstance(n.func, ast.Name):
                called.add(n.func.id)
    for g in nested:
        if g.name in called and g.name not in ('wrapper',):
            continue        # a helper called by another closure: judged inlined into its callers
        for p in ctx.paths(g, 'plain'):
            for e in p.trace:
                if _is_user_call(e) and not e.d.get('inlined'):
                    ncalls += 1
                    if not _passes_all_args(e):
                        ok, why = False, '%s calls the function without (*args, **kwargs)' % g.qual
                # the marker of a running refresh lives in the same cache as the results: it is the call's key extended
                # by a sentinel no caller can pass; extended by plain constants it IS the key of another call
                # (args_to_key appends None itself), whose entry then blocks or corrupts the refresh protocol
                if e.kind == 'CALL' and e.d['name'] == 'add' and not e.d.get('inlined') and e.d['args'] \
                        and e.d['args'][0].k == 'term' and e.d['args'][0].a[0] == 'Add':
                    nmarkers += 1
                    parts = e.d['args'][0].a[1]
                    ext = [x for x in parts if x.k == 'tuple']
                    if ext and not any(y.k == 'modconst' for x in ext for y in x.a[0]):
                        ok, why = False, 'the refresh marker key is the call\'s key extended by %s: that is the key of ' \
                                         'the same function called with those extra arguments, so the two calls share ' \
                                         'an entry' % (ext[0],)
                if e.kind == 'EXT' and e.d['name'] == 'threading.Thread':
                    tgt = e.d['kwargs'].get('target')
                    if tgt is not None and tgt.k == 'func':
                        tf = ctx.prog.funcs.get(tgt.a[0])
                        # the refresh thread stores what it computed under the key that was looked up, and is started
                        if tf is not None:
                            nthreads += 1
                            stores = False
                            for tp in ctx.paths(tf, 'plain'):
                                if tp.kind not in ('return', 'next'):
                                    continue
                                # the computation: a call that receives the caller's (*args, **kwargs)
                                ucs = [x for x in tp.trace if x.kind in ('UCALL', 'CALL') and 'args' in x.d
                                       and _passes_all_args(x)]
                                sts = [x for x in tp.trace if x.kind == 'CALL' and x.d['name'] == 'set'
                                       and not x.d.get('inlined')]
                                for st_ in sts:
                                    a_ = st_.d['args']
                                    useqs = {u.seq for u in ucs}
                                    if not ucs:
                                        # the computation may be handed in as a callable (functools.partial): any
                                        # call made by the thread body whose result is what gets stored
                                        useqs = {x.seq for x in tp.trace if x.kind in ('UCALL', 'CALL') and x.seq < st_.seq}
                                    if len(a_) >= 2 and a_[0].k in ('free', 'param') and useqs and any(
                                            y.k in ('ret', 'ucall') and y.a[0] in useqs for y in values_in(a_[1])):
                                        stores = True
                            if not stores:
                                ok, why = False, 'the early-recomputation thread does not store its result under the ' \
                                                 'key: the refresh is computed and thrown away, so every caller ' \
                                                 'recomputes at expiry (the stampede the recipe exists to prevent)'
                            # only the caller that won the marker (cache.add(...) returned true) refreshes
                            won = any(x.kind == 'TEST' and x.seq < e.seq and x.d['truth'] and x.d['val'].k == 'ret'
                                      and any(q.endswith('.add') for q in x.d['val'].a[1]) for x in p.trace)
                            if not won:
                                ok, why = False, 'the refresh thread is started without having won the marker key ' \
                                                 '(cache.add(...) true): every caller that finds the marker already ' \
                                                 'set starts another recomputation - the stampede the recipe prevents'
                            started = any(x.kind == 'MCALL' and x.d['name'] == 'start' for x in p.trace[e.seq:])
                            if not started:
                                ok, why = False, 'the early-recomputation thread is created but never started'
                        if tf is not None and (tf.posparams or tf.vararg or tf.kwarg or tf.kwonly):
                            a, k = e.d['kwargs'].get('args'), e.d['kwargs'].get('kwargs')
                            good_a = a is not None and any(x.k == 'param' and x.a[0] == '*args' for x in values_in(a))
                            good_k = k is not None and any(x.k == 'param' and x.a[0] == '**kwargs' for x in values_in(k))
                            if (tf.vararg or tf.posparams) and not good_a:
                                ok, why = False, 'the refresh thread is started without the positional arguments'
                            if (tf.kwarg or tf.kwonly) and not good_k:
                                ok, why = False, 'the refresh thread is started without the keyword arguments of ' \
                                                 'the call: it recomputes func(*args) and stores the result under ' \
                                                 'the key of func(*args, **kwargs)'
    obs.append(Ob('M3', 'stampede/helpers-call-through', ok and ncalls >= 1, why or 'helper closures not found',
                  outer.loc()))
    return obs


@rule('M4', floor=3, title='decorator factories keep no state between decorated functions (no nonlocal rebinding of their arguments)')
def m4(ctx):
    obs = []
    for q in ('core.Cache.memoize', 'djangocache.DjangoCache.memoize', 'recipes.memoize_stampede', 'recipes.throttle',
              'recipes.barrier'):
        f = ctx.func(q)
        bad = []
        params = set(f.posparams) | set(f.kwonly)
        for n in ast.walk(f.node):
            if isinstance(n, (ast.Nonlocal, ast.Global)):
                bad.append(n)
        # assignments inside nested functions to names that are parameters of the factory
        def nested_nodes(fn):
            for g in fn.nested.values():
                yield g
                yield from nested_nodes(g)
        if q in ('core.Cache.memoize', 'djangocache.DjangoCache.memoize', 'recipes.memoize_stampede'):
            dec = f.nested.get('decorator')
            uses = False
            if dec is not None:
                for p in ctx.paths(dec, 'plain'):
                    for e in p.trace:
                        if e.kind == 'CALL' and any(t.qual == 'core.full_name' for t in e.d['targets']) and e.d['args'] \
                                and e.d['args'][0].k == 'param' and e.d['args'][0].a[0] == dec.posparams[0]:
                            uses = True
            obs.append(Ob('M4', q + '/automatic-name-is-full-name', uses,
                          'the automatic key prefix of %s is not full_name(func) (module + qualified name): same-named '
                          'methods of two classes, or closures made in different functions, would share entries' % q,
                          f.loc()))
        obs.append(Ob('M4', q, not bad,
                      'a closure created by %s rebinds a variable of the enclosing call (nonlocal %s): the name/base '
                      'derived for the first decorated function leaks into the next function decorated with the same '
                      'decorator object, so both build the same keys' % (q, ', '.join(
                          x for b in bad for x in getattr(b, 'names', []))), f.loc(bad[0]) if bad else f.loc()))
    return obs
