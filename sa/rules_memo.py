"""M rules: memoization key builder and wrapper shape."""
import ast

from .framework import rule, Ob, fmt_trace, values_in
from .model import AnalysisError, walk_shallow, dotted
from .values import V, C


def _chain(v):
    """Operands of a left-nested Add chain, in order."""
    if v.k == 'term' and v.a[0] == 'Add':
        l, r = v.a[1]
        return _chain(l) + [r]
    return [v]


def _seg_class(v):
    vs = values_in(v)
    if any(x.k == 'typeof' for x in vs):
        return 'types'
    if v.k == 'param' and v.a[0] == 'base':
        return 'base'
    if any(x.k == 'param' and x.a[0] == 'args' for x in vs):
        return 'args'
    if any((x.k == 'term' and x.a[0] == 'sorted') or (x.k == 'param' and x.a[0] == 'kwargs') or
           (x.k == 'mcall' and x.a[0] == 'items') for x in vs):
        return 'items'
    if v.k == 'tuple' or v.is_const or v.k == 'modconst':
        return 'sep'
    return 'other'


def _forgeable(sep):
    """Can a caller-supplied positional/keyword value equal this separator element?"""
    elems = []
    if sep.k == 'tuple':
        elems = list(sep.a[0])
    elif sep.is_const and isinstance(sep.val, tuple):
        return True if sep.val else True
    else:
        elems = [sep]
    if not elems:
        return True
    for e in elems:
        if e.k == 'modconst' or e.k == 'new' or (e.k == 'ext' and e.a[0] == 'builtins.object'):
            return False      # a module-private sentinel object: no argument value equals it by accident
    return True


@rule('M1', floor=2, title='memoize key builder: positional and keyword segments are separated by an unforgeable delimiter')
def m1(ctx):
    f = ctx.func('core.args_to_key')
    n = 0
    state = None   # None / 'forgeable' / 'missing'
    wit = None
    types_last = True
    uncond = True
    wit_u = None
    for p in ctx.paths(f, 'plain'):
        if p.kind != 'return':
            continue
        ops = _chain(p.outcome[1])
        cl = [_seg_class(o) for o in ops]
        if 'types' in cl:
            first = cl.index('types')
            if any(c != 'types' for c in cl[first:]):
                types_last = False
        if 'args' not in cl:
            continue
        # the builder appends the separator unconditionally (items may follow on other paths)
        ai = cl.index('args')
        after = cl[ai + 1:]
        if not after or after[0] != 'sep':
            uncond = False
            wit_u = fmt_trace(p.trace)
        nxt = [c for c in after if c != 'types']
        n += 1
        if 'items' in after:
            between = cl[ai + 1: ai + 1 + after.index('items')]
            seps = [ops[ai + 1 + i] for i, c in enumerate(between) if c == 'sep']
            if not seps:
                state = 'missing'
                wit = fmt_trace(p.trace)
            elif all(_forgeable(s) for s in seps) and state != 'missing':
                state = 'forgeable'
                wit = fmt_trace(p.trace)
    if n == 0:
        raise AnalysisError('M1: key builder shape not recognised (no positional segment found)')
    return [
        Ob('M1', 'args_to_key/separator-present', state != 'missing',
           'positional values are followed directly by keyword name/value pairs with no delimiter: f(1, "a", 2) and '
           'f(1, a=2) build the same key', f.loc(), wit if state == 'missing' else None),
        Ob('M1', 'args_to_key/separator-unforgeable', state != 'forgeable',
           'the delimiter between positional values and keyword pairs is the literal None, which is itself a legal '
           'argument value: f(1, None, "a") and f(1, a=None) build the same key, so a variadic function is served '
           'another call\'s result', f.loc(), wit if state == 'forgeable' else None),
        Ob('M1', 'args_to_key/separator-unconditional', uncond,
           'the delimiter after the positional values is appended only on some paths (e.g. only when keyword '
           'arguments are present): a positional-only call such as f(1, None, "a", 2) then builds the same key as '
           'f(1, a=2)', f.loc(), wit_u),
        Ob('M1', 'args_to_key/types-trail', types_last, 'type segments are not the trailing segments of the key', f.loc()),
    ]


@rule('M2', floor=4, title='typed appends the type of every kept value; ignore filters positions and names before both')
def m2(ctx):
    f = ctx.func('core.args_to_key')
    node = f.node
    obs = []
    # (a) positional filter
    pos_filter = kw_filter = False
    pos_line = kw_line = None
    for n in ast.walk(node):
        if isinstance(n, ast.Assign) and len(n.targets) == 1 and isinstance(n.targets[0], ast.Name):
            tgt = n.targets[0].id
            for c in ast.walk(n.value):
                if isinstance(c, ast.comprehension):
                    it = ast.unparse(c.iter)
                    conds = [ast.unparse(x) for x in c.ifs]
                    if tgt == 'args' and 'enumerate(args)' in it and any('not in ignore' in x for x in conds):
                        tv = c.target
                        names = [e.id for e in tv.elts] if isinstance(tv, ast.Tuple) else []
                        if names and any(x == '%s not in ignore' % names[0] for x in conds):
                            pos_filter = True
                            pos_line = n.lineno
                    if tgt == 'kwargs' and 'kwargs.items()' in it and any('not in ignore' in x for x in conds):
                        tv = c.target
                        names = [e.id for e in tv.elts] if isinstance(tv, ast.Tuple) else []
                        if names and any(x == '%s not in ignore' % names[0] for x in conds):
                            kw_filter = True
                            kw_line = n.lineno
    obs.append(Ob('M2', 'ignore/positional', pos_filter, 'positional arguments are not filtered by index against '
                  '`ignore` before the key is built', f.loc()))
    obs.append(Ob('M2', 'ignore/keyword', kw_filter, 'keyword arguments are not filtered by name against `ignore` '
                  'before the key is built', f.loc()))
    # (b) typed: under `if typed`, types of every kept positional and (if kwargs) of every sorted item value
    okp = okk = False
    for n in ast.walk(node):
        if isinstance(n, ast.If) and ast.unparse(n.test) == 'typed':
            if pos_line is not None and n.lineno < pos_line:
                continue
            for c in ast.walk(n):
                if isinstance(c, ast.GeneratorExp) or isinstance(c, ast.ListComp):
                    g = c.generators[0]
                    elt = ast.unparse(c.elt)
                    it = ast.unparse(g.iter)
                    if it == 'args' and elt == 'type(%s)' % ast.unparse(g.target) and not g.ifs:
                        okp = True
                    if it in ('sorted_items', 'sorted(kwargs.items())') and isinstance(g.target, ast.Tuple) and \
                            len(g.target.elts) == 2 and elt == 'type(%s)' % ast.unparse(g.target.elts[1]) and not g.ifs:
                        okk = True
    obs.append(Ob('M2', 'typed/positional', okp, 'with typed=True the type of every kept positional value is not '
                  'appended: f(1) and f(1.0) share an entry', f.loc()))
    obs.append(Ob('M2', 'typed/keyword', okk, 'with typed=True the type of every kept keyword value is not appended',
                  f.loc()))
    # sorted items come from the filtered kwargs
    srt = False
    for n in ast.walk(node):
        if isinstance(n, ast.Assign) and ast.unparse(n.value) == 'sorted(kwargs.items())':
            if kw_line is not None and n.lineno > kw_line:
                srt = True
    obs.append(Ob('M2', 'keyword/sorted-after-filter', srt, 'keyword pairs are not sorted (after filtering): the key '
                  'depends on the order in which keywords were written', f.loc()))
    return obs


# ---------------------------------------------------------------------- M3
def _wrappers(ctx):
    out = []
    for q, kind in (('core.Cache.memoize.<locals>.decorator.<locals>.wrapper', 'plain'),
                    ('djangocache.DjangoCache.memoize.<locals>.decorator.<locals>.wrapper', 'django'),
                    ('recipes.memoize_stampede.<locals>.decorator.<locals>.wrapper', 'stampede')):
        out.append((ctx.func(q), kind))
    return out


def _expiry_cases(trace, pname):
    """Cases of the closure variable `pname` (none / neg / zero / pos / default marker) consistent with
    the branch decisions taken on this path; None if no decision mentions it."""
    cases = {'none', 'neg', 'zero', 'pos', 'default'}
    seen = False
    num = {'neg': -1, 'zero': 0, 'pos': 1}
    for e in trace:
        if e.kind != 'TEST':
            continue
        v = e.d['val']
        truth = e.d['truth']
        while v.k == 'not':
            v = v.a[0]
            truth = not truth
        if v.k != 'cmp' or len(v.a[0]) != 1 or len(v.a[1]) != 2:
            continue
        a, b = v.a[1]

        def is_var(x):
            return x.k == 'free' and x.a[0] == pname
        if not (is_var(a) or is_var(b)):
            continue
        seen = True
        op = v.a[0][0]
        other = b if is_var(a) else a
        flip = not is_var(a)
        ok_cases = set()
        for c in cases:
            if other.is_const and other.val is None and op in ('Is', 'IsNot'):
                r = (c == 'none') if op == 'Is' else (c != 'none')
            elif other.is_const and isinstance(other.val, (int, float)) and not isinstance(other.val, bool) \
                    and other.val == 0 and op in ('Lt', 'LtE', 'Gt', 'GtE', 'Eq', 'NotEq'):
                if c in ('none', 'default'):
                    # comparing None with 0 raises; the default marker is an object: the path cannot be in this case
                    # unless the comparison is (in)equality
                    if op in ('Eq', 'NotEq'):
                        r = op == 'NotEq'
                    else:
                        continue
                else:
                    d = num[c] if not flip else -num[c]
                    r = {'Lt': d < 0, 'LtE': d <= 0, 'Gt': d > 0, 'GtE': d >= 0, 'Eq': d == 0, 'NotEq': d != 0}[op]
            elif op in ('Eq', 'NotEq', 'Is', 'IsNot') and other.k in ('extfn', 'modconst', 'global', 'const'):
                # comparison with the DEFAULT_TIMEOUT marker
                r = (c == 'default') if op in ('Eq', 'Is') else (c != 'default')
            else:
                r = truth
            if r == truth:
                ok_cases.add(c)
        cases = ok_cases
    return cases if seen else None


def _is_user_call(e):
    if e.kind == 'UCALL' and e.d['callee'].k == 'free' and e.d['callee'].a[0] == 'func':
        return True
    if e.kind == 'CALL' and any(t.name == 'timer' for t in e.d['targets']):
        return True
    return False


def _passes_all_args(e):
    args = e.d['args']
    sk = e.d.get('starkw')

    def is_args(v, name):
        return (v.k == 'param' and v.a[0] == ('*' if name == 'args' else '**') + name) or \
            (v.k == 'free' and v.a[0] == name)
    return len(args) == 1 and args[0].k == 'star' and is_args(args[0].a[0], 'args') \
        and sk is not None and is_args(sk, 'kwargs') and not e.d['kwargs']


@rule('M3', floor=12, title='memoize wrappers: sentinel lookup, call through with the same arguments, same key stored, zero expiry stores nothing')
def m3(ctx):
    obs = []
    for f, kind in _wrappers(ctx):
        res = {'lookup': [True, None], 'call-through': [True, None], 'returns': [True, None],
               'same-key': [True, None], 'store-guard': [True, None]}
        nmiss = nhit = 0
        for p in ctx.paths(f, 'plain'):
            if p.kind != 'return':
                continue
            tr = p.trace
            keyev = [e for e in tr if e.kind == 'MCALL' and e.d['name'] == '__cache_key__' and e.d['recv'].k == 'func'
                     and e.d['recv'].a[0] == f.qual]
            gets = [e for e in tr if e.kind == 'CALL' and e.d['name'] == 'get']
            sets = [e for e in tr if e.kind == 'CALL' and e.d['name'] == 'set' and e.fn is f]
            users = [e for e in tr if _is_user_call(e) and e.fn is f]
            if len(keyev) != 1 or not _passes_all_args(keyev[0]) or len(gets) != 1:
                res['lookup'] = [False, fmt_trace(tr)]
                continue
            keyv = V('mcall', '__cache_key__', keyev[0].seq)
            g = gets[0]
            dflt = g.d['kwargs'].get('default') or (g.d['args'][1] if len(g.d['args']) > 1 else None)
            retry = g.d['kwargs'].get('retry')
            if not (g.d['args'] and g.d['args'][0] == keyv and dflt is not None and dflt.k == 'modconst'
                    and dflt.a[1] == 'ENOVAL' and retry is not None and retry.is_const and retry.val is True):
                res['lookup'] = [False, fmt_trace(tr)]
            rv = p.outcome[1]
            if users:
                nmiss += 1
                if len(users) != 1 or not _passes_all_args(users[0]):
                    res['call-through'] = [False, fmt_trace(tr)]
                u = users[0]
                uval = V('ucall', u.seq) if u.kind == 'UCALL' else V('ret', u.seq, tuple(sorted(t.qual for t in u.d['targets'])))
                if kind == 'stampede':
                    okr = rv.k in ('item', 'field') and rv.a[0] == uval and rv.a[1] in (0, C(0))
                else:
                    okr = rv == uval
                if not okr:
                    res['returns'] = [False, fmt_trace(tr)]
                for s in sets:
                    a = s.d['args']
                    if not (len(a) >= 2 and a[0] == keyv and a[1] == uval):
                        res['same-key'] = [False, fmt_trace(tr)]
                if kind in ('plain', 'django'):
                    # the store happens exactly when expiry is None / default marker / > 0
                    pname = 'expire' if kind == 'plain' else 'timeout'
                    cases = _expiry_cases(tr, pname)
                    if cases is None:
                        res['store-guard'] = [False, fmt_trace(tr)]
                    elif sets and not cases <= {'none', 'pos', 'default'}:
                        res['store-guard'] = [False, fmt_trace(tr)]
                    elif not sets and not cases <= {'neg', 'zero'}:
                        res['store-guard'] = [False, fmt_trace(tr)]
                else:
                    if len(sets) != 1:
                        res['same-key'] = [False, fmt_trace(tr)]
            else:
                nhit += 1
                # served from the cache: the value returned is (part of) the lookup result
                gv = V('ret', g.seq, tuple(sorted(t.qual for t in g.d['targets'])))
                if not any(x == gv for x in values_in(rv)):
                    res['returns'] = [False, fmt_trace(tr)]
        msgs = {
            'lookup': 'the wrapper does not look up key = __cache_key__(*args, **kwargs) with default=ENOVAL and '
                      'retry=True exactly once',
            'call-through': 'on a miss the undecorated function is not called exactly once with (*args, **kwargs)',
            'returns': 'a return path yields neither the cached value nor the result of this call',
            'same-key': 'the result is stored under a different key (or a different value) than the one looked up',
            'store-guard': 'the result is stored although the expiry is zero/negative, or not stored for a valid expiry',
        }
        for k, (ok, wit) in res.items():
            if kind == 'stampede' and k == 'store-guard':
                continue
            obs.append(Ob('M3', '%s/%s' % (kind, k), ok and nmiss > 0 and nhit > 0, msgs[k], f.loc(), wit))
    # memoize_stampede: every helper closure calls through with all arguments, and the refresh thread gets them
    outer = ctx.func('recipes.memoize_stampede.<locals>.decorator')
    ok, why = True, ''
    ncalls = 0

    def all_nested(fn):
        for g in fn.nested.values():
            yield g
            yield from all_nested(g)
    for g in all_nested(outer):
        for p in ctx.paths(g, 'plain'):
            for e in p.trace:
                if _is_user_call(e) and e.fn is g:
                    ncalls += 1
                    if not _passes_all_args(e):
                        ok, why = False, '%s calls the function without (*args, **kwargs)' % g.qual
                if e.kind == 'EXT' and e.d['name'] == 'threading.Thread' and e.fn is g:
                    tgt = e.d['kwargs'].get('target')
                    if tgt is not None and tgt.k == 'func':
                        tf = ctx.prog.funcs.get(tgt.a[0])
                        if tf is not None and (tf.posparams or tf.vararg or tf.kwarg or tf.kwonly):
                            a, k = e.d['kwargs'].get('args'), e.d['kwargs'].get('kwargs')
                            good_a = a is not None and any(x.k == 'param' and x.a[0] == '*args' for x in values_in(a))
                            good_k = k is not None and any(x.k == 'param' and x.a[0] == '**kwargs' for x in values_in(k))
                            if (tf.vararg or tf.posparams) and not good_a:
                                ok, why = False, 'the refresh thread is started without the positional arguments'
                            if (tf.kwarg or tf.kwonly) and not good_k:
                                ok, why = False, 'the refresh thread is started without the keyword arguments of ' \
                                                 'the call: it recomputes func(*args) and stores the result under ' \
                                                 'the key of func(*args, **kwargs)'
    obs.append(Ob('M3', 'stampede/helpers-call-through', ok and ncalls >= 2, why or 'helper closures not found',
                  outer.loc()))
    return obs


@rule('M4', floor=3, title='decorator factories keep no state between decorated functions (no nonlocal rebinding of their arguments)')
def m4(ctx):
    obs = []
    for q in ('core.Cache.memoize', 'djangocache.DjangoCache.memoize', 'recipes.memoize_stampede', 'recipes.throttle',
              'recipes.barrier'):
        f = ctx.func(q)
        bad = []
        params = set(f.posparams) | set(f.kwonly)
        for n in ast.walk(f.node):
            if isinstance(n, (ast.Nonlocal, ast.Global)):
                bad.append(n)
        # assignments inside nested functions to names that are parameters of the factory
        def nested_nodes(fn):
            for g in fn.nested.values():
                yield g
                yield from nested_nodes(g)
        obs.append(Ob('M4', q, not bad,
                      'a closure created by %s rebinds a variable of the enclosing call (nonlocal %s): the name/base '
                      'derived for the first decorated function leaks into the next function decorated with the same '
                      'decorator object, so both build the same keys' % (q, ', '.join(
                          x for b in bad for x in getattr(b, 'names', []))), f.loc(bad[0]) if bad else f.loc()))
    return obs
