"""P rules: persistence, settings, released on-disk format."""
import ast
import json
import os

from .framework import rule, Ob, fmt_trace, sql_events, values_in, deep_values
from .model import AnalysisError, walk_shallow, dotted
from .interp import Interp
from .values import V, C
from . import sql as sqlmod

HERE = os.path.dirname(os.path.dirname(os.path.abspath(__file__)))
REFERENCE = os.path.join(HERE, 'reference', 'format-5.6.3.json')


# ---------------------------------------------------------------------- P1
def _attr_role(ctx, cls, v):
    """Constructor parameter a state element stands for."""
    if v.k == 'typeof':
        return _attr_role(ctx, cls, v.a[0])
    if v.k == 'term' and v.a[0] == 'len' and len(v.a[1]) == 1:
        return _attr_role(ctx, cls, v.a[1][0])      # len(self._shards) stands for the shard count
    if v.k == 'selfattr':
        attr = v.a[1]
        init = ctx.method(cls, '__init__')
        roles = set()
        for p in ctx.paths(init, 'plain')[:60]:
            for e in p.trace:
                if e.kind == 'SETATTR' and e.d['attr'] == attr and e.d['base'].k == 'self':
                    for x in values_in(e.d['val']):
                        if x.k == 'param':
                            roles.add(x.a[0].lstrip('*'))
        if len(roles) == 1:
            return roles.pop()
        return attr.lstrip('_')
    if v.k == 'attr':
        return v.a[1].lstrip('_')
    if v.k == 'prop':
        return v.a[1].split('.')[-1]
    return '?'


@rule('P1', floor=4, title='pickled state tuple matches the constructor parameters it is fed back into')
def p1(ctx):
    obs = []
    for cls in ('Cache', 'FanoutCache', 'Deque', 'Index'):
        gs = ctx.method(cls, '__getstate__')
        ss = ctx.method(cls, '__setstate__')
        init = ctx.method(cls, '__init__')
        state = None
        for p in ctx.paths(gs, 'plain'):
            if p.kind == 'return':
                state = p.outcome[1]
        ok, why = True, ''
        if state is None:
            ok, why = False, '__getstate__ does not return'
        else:
            elems = list(state.a[0]) if state.k == 'tuple' else [state]
            roles = [_attr_role(ctx, cls, v) for v in elems]
            call = None
            unpack = {}
            for p in ctx.paths(ss, 'plain'):
                for e in p.trace:
                    if e.kind == 'CALL' and e.d['name'] == '__init__':
                        call = e
            if call is None:
                ok, why = False, '__setstate__ does not call __init__'
            else:
                args, kw = call.d['args'], call.d['kwargs']
                iparams = list(init.params)
                scalar = state.k != 'tuple'

                def comp(v):
                    """Index of the state component a value denotes ('all' = the whole state object)."""
                    if v.k == 'param' and v.a[0] == 'state':
                        return 'all'
                    if v.k in ('field', 'item') and v.a[0].k == 'param' and v.a[0].a[0] == 'state':
                        i = v.a[1]
                        if isinstance(i, V) and i.is_const:
                            i = i.val
                        return i if isinstance(i, int) else None
                    return None
                bound = []      # (constructor parameter, component index)
                pos = 0
                for a_ in args:
                    if a_.k == 'star' and comp(a_.a[0]) == 'all' and not scalar:
                        for i in range(len(roles)):
                            bound.append((iparams[pos] if pos < len(iparams) else '*', i))
                            pos += 1
                        continue
                    c_ = comp(a_)
                    if c_ == 'all' and scalar:
                        c_ = 0
                    bound.append((iparams[pos] if pos < len(iparams) else '*', c_))
                    pos += 1
                for name, v in kw.items():
                    c_ = comp(v)
                    if c_ == 'all' and scalar:
                        c_ = 0
                    bound.append((name, c_))
                used = [c_ for _, c_ in bound]
                if any(c_ is None or c_ == 'all' or c_ >= len(roles) for c_ in used):
                    ok, why = False, '__init__ receives something other than the components of the state %s' % roles
                elif sorted(used) != list(range(len(roles))):
                    ok, why = False, 'state components %s are not each passed exactly once (%s)' % (roles, bound)
                else:
                    for name, c_ in bound:
                        want = roles[c_]
                        if name == '*':
                            # *args constructor (Index): the first positional is the directory
                            if not (init.vararg and want == 'directory' and c_ == 0):
                                ok, why = False, 'state %s does not match __init__(*%s)' % (roles, init.vararg)
                        elif name != want:
                            ok, why = False, 'state component %r is passed as constructor parameter %r' % (want, name)
        obs.append(Ob('P1', '%s/state' % cls, ok, '%s: %s -- an unpickled object would reopen with the wrong directory, '
                      'timeout, shard count or disk class' % (cls, why), gs.loc()))
    # Deque.copy passes directory and maxlen
    f = ctx.method('Deque', 'copy')
    ok = False
    for p in ctx.paths(f, 'plain'):
        for e in p.trace:
            if e.kind in ('UCALL', 'NEW', 'CALL'):
                kw = e.d.get('kwargs', {})
                if set(kw) == {'directory', 'maxlen'}:
                    ok = True
    obs.append(Ob('P1', 'Deque.copy', ok, 'Deque.copy does not pass directory and maxlen to the new object', f.loc()))
    return obs


# ---------------------------------------------------------------------- P2
@rule('P2', floor=4, title='settings survive reopen: defaults < stored < arguments; counters inserted with OR IGNORE')
def p2(ctx):
    f = ctx.method('Cache', '__init__')
    res = {'layering': False, 'settings-replace': False, 'metadata-ignore': False, 'metadata-stripped': False,
           'stored-read': False, 'metadata-always-seeded': True, 'init-statements-retry': True}
    plain_site = []
    stripped_other = False
    for p in ctx.paths(f, 'plain'):
        if p.kind == 'cut':
            continue
        tr = p.trace
        written, written_at = set(), []
        updates = [e for e in tr if e.kind == 'MCALL' and e.d['name'] == 'update']
        copies = [e for e in tr if e.kind == 'MCALL' and e.d['name'] == 'copy']
        sel = [e for e in sql_events(tr, 'select', 'Settings')]
        if sel:
            res['stored-read'] = True
        # __init__ runs with a zero lock timeout: a statement sent through the plain executor fails at once when the
        # database is briefly busy - and for the stored-settings read that failure is taken for "no Settings table"
        for e in sql_events(tr):
            if e.d.get('flavour') != 'retry' and (e.fn is f or f.qual in e.stack):
                direct = e.fn is f or all(q == f.qual or ctx.prog.funcs[q].name.startswith('_') for q in e.stack
                                          if q in ctx.prog.funcs)
                if direct:
                    res['init-statements-retry'] = False
                    plain_site.append(e)
        for e in sql_events(tr, 'insert', 'Settings'):
            # which loop encloses it?  find the last FOR it=1 before the event
            fors = [x for x in tr[:e.seq] if x.kind == 'FOR' and x.d['it'] == 1]
            if not fors:
                continue
            it = fors[-1].d['iter']
            over_metadata = _is_metadata_iter(it) or (it.k == 'mcall' and _recv_is_metadata(tr, it))
            if over_metadata:
                if e.d['stmt'].conflict == 'ignore':
                    res['metadata-ignore'] = True
                else:
                    res['metadata-ignore'] = 'REPLACE'
            else:
                if e.d['stmt'].conflict == 'replace':
                    res['settings-replace'] = True
                    # the mapping whose items are written back
                    for x in values_in(it):
                        if x.k == 'mcall' and x.a[0] == 'items' and isinstance(x.a[1], int):
                            w = tr[x.a[1]].d.get('recv')
                            written.add(w)
                            written_at.append(fors[-1].seq)
                            # the written mapping is defaults < stored < arguments, in that override order
                            srcs, strip = _layers(w, tr, fors[-1].seq)
                            kinds = [_layer_kind(y) for y in srcs]
                            if sel and kinds == ['defaults', 'stored', 'arguments']:
                                res['layering'] = True
                                # the stored layer is everything the table holds: a filter by known names drops the
                                # disk_* settings of custom Disk classes (and with them every stored key)
                                for t_ in tr[:fors[-1].seq]:
                                    if t_.kind == 'TEST' and t_.d['val'].k in ('cmp',) and \
                                            t_.d['val'].a[0] in (('In',), ('NotIn',)):
                                        l_, r_ = t_.d['val'].a[1]
                                        against_names = any(x.k == 'modconst' and 'SETTINGS' in x.a[1] or
                                                            (x.is_const and isinstance(x.val, dict) and 'size_limit' in x.val)
                                                            for x in values_in(r_))
                                        from_stored = False
                                        for y in values_in(l_):
                                            if y.k in ('rows', 'row', 'dictof'):
                                                from_stored = True
                                            if y.k == 'mcall' and y.a[0] in ('items', 'keys') and isinstance(y.a[1], int):
                                                rv_ = tr[y.a[1]].d.get('recv')
                                                if rv_ is not None and _layer_kind(rv_) == 'stored':
                                                    from_stored = True
                                        if against_names and from_stored:
                                            res['layering'] = 'FILTERED'
                            if strip:
                                res['metadata-stripped'] = True
        if p.kind in ('return', 'next'):
            seeded = [e for e in sql_events(tr, 'insert', 'Settings') if e.d['stmt'].conflict in ('ignore', 'replace')
                      and e.d.get('params') and not isinstance(e.d['params'], V)
                      and any(x.is_const and isinstance(x.val, str) and x.val in ('count', 'size', 'hits', 'misses')
                              or x.k in ('elem', 'field') for x in e.d['params'][:1])]
            meta_inserts = []
            for e in sql_events(tr, 'insert', 'Settings'):
                fors = [x for x in tr[:e.seq] if x.kind == 'FOR' and x.d['it'] == 1]
                if fors and _is_metadata_iter(fors[-1].d['iter']):
                    meta_inserts.append(e)
            if not meta_inserts:
                res['metadata-always-seeded'] = False
        pops = [e for e in tr if e.kind == 'MCALL' and e.d['name'] == 'pop']
        for e in pops:
            fors = [x for x in tr[:e.seq] if x.kind == 'FOR' and x.d['it'] == 1]
            if fors and _is_metadata_iter(fors[-1].d['iter']):
                # ... from the mapping that is written back (merged defaults < stored < arguments), before the write
                if written and e.d.get('recv') in written and e.seq < min(written_at):
                    res['metadata-stripped'] = True
                elif written:
                    stripped_other = True
    if stripped_other and not res['metadata-stripped']:
        pass
    msgs = {
        'layering': 'settings are not layered defaults < stored < constructor arguments: reopening would reset stored '
                    'settings to defaults (or ignore explicit arguments)',
        'settings-replace': 'settings are not written back with INSERT OR REPLACE',
        'metadata-ignore': 'the count/size/hits/misses rows are not inserted with OR IGNORE: every reopen would zero '
                           'the counters of an existing cache',
        'init-statements-retry': 'Cache.__init__ sends a statement through the plain executor while its lock timeout '
                                 'is zero: a briefly busy database raises OperationalError at once; for the read of the '
                                 'stored settings the handler takes that for "no Settings table yet" and the stored '
                                 'settings are overwritten with defaults',
        'metadata-stripped': 'counter names are not stripped from the merged mapping that is written back (defaults < '
                             'stored < arguments), before the write: a stored/explicit `count` would '
                             'overwrite the trigger-maintained value',
        'stored-read': 'stored settings are not read back on open',
        'metadata-always-seeded': 'the count/size/hits/misses rows are seeded only on some paths of __init__ (e.g. only '
                                  'when the Settings table was empty): a process killed during the first open leaves a '
                                  'directory that can never be opened again',
    }
    return [Ob('P2', 'Cache.__init__/' + k, v is True, msgs[k], f.loc()) for k, v in res.items()]


def _layer_kind(v):
    if v.is_const and isinstance(v.val, dict) and 'size_limit' in v.val or v.k == 'modconst' and 'SETTINGS' in v.a[1]:
        return 'defaults'
    if any(x.k in ('rows', 'dictof') for x in values_in(v)) or (v.k == 'mdict' and not v.a[0]):
        return 'stored'         # dict(rows of SELECT ... FROM Settings), or {} when the table does not exist yet
    if v.k == 'param' and v.a[0] == '**settings':
        return 'arguments'
    return '?'


def _layers(v, tr, upto, depth=0):
    """Sources a mapping value was merged from, in override order, and whether the counter names were filtered
    out on the way (dict comprehension with `key not in METADATA`).  Handles X.copy(), dict(X), {**a, **b},
    a | b, later .update(y) calls on the same object and filtering comprehensions over X.items()."""
    if depth > 6:
        return [v], False
    srcs, strip = None, False
    if v.k == 'mcall' and v.a[0] == 'copy' and isinstance(v.a[1], int):
        srcs, strip = _layers(tr[v.a[1]].d['recv'], tr, v.a[1], depth + 1)
    elif v.k == 'term' and v.a[0] == 'dict' and len(v.a[1]) == 1:
        srcs, strip = _layers(v.a[1][0], tr, upto, depth + 1)
    elif v.k == 'merge':
        srcs = []
        strip = True
        for x in v.a[0]:
            s2, st2 = _layers(x, tr, upto, depth + 1)
            srcs += s2
            strip = strip and st2       # a later unfiltered layer re-introduces the counter names
    elif v.k == 'term' and v.a[0] == 'BitOr' and len(v.a[1]) == 2:
        a, sa = _layers(v.a[1][0], tr, upto, depth + 1)
        b, sb = _layers(v.a[1][1], tr, upto, depth + 1)
        srcs, strip = a + b, sa and sb
    elif v.k == 'comp' and v.a[0] == 'DictComp':
        inner = [x for x in values_in(v) if x.k == 'mcall' and x.a[0] == 'items' and isinstance(x.a[1], int)]
        if inner:
            ev = tr[inner[0].a[1]]
            srcs, strip = _layers(ev.d['recv'], tr, ev.seq, depth + 1)
            # filter `key not in METADATA` (assumed true for the produced elements)
            for e in tr[ev.seq:upto]:
                if e.kind == 'TEST' and e.d['truth'] and e.d['val'].k == 'cmp' and e.d['val'].a[0] == ('NotIn',):
                    l, r = e.d['val'].a[1]
                    if _is_metadata_iter(r) and inner[0] in values_in(l):
                        strip = True
    if srcs is None:
        return [v], False
    # updates applied to this very object afterwards
    for e in tr[:upto]:
        if e.kind == 'MCALL' and e.d['name'] == 'update' and e.d.get('recv') == v and e.d['args']:
            s2, st2 = _layers(e.d['args'][0], tr, e.seq, depth + 1)
            srcs = srcs + s2
            strip = strip and st2
    return srcs, strip


def _is_metadata_iter(it):
    for x in values_in(it):
        if not x.is_const:
            continue
        v = x.val
        if isinstance(v, dict) and set(v) >= {'count', 'size'}:
            return True
        if v == 'count' and it.k == 'tuple':
            return True     # the loop over the counter table was unrolled
        if isinstance(v, (list, tuple)) and any((isinstance(t, tuple) and t and t[0] == 'count') or t == 'count' for t in v):
            return True
    return False


def _recv_is_metadata(tr, it):
    ev = tr[it.a[1]] if len(it.a) > 1 and isinstance(it.a[1], int) else None
    if ev is None:
        return False
    r = ev.d.get('recv')
    return r is not None and r.is_const and isinstance(r.val, dict) and set(r.val) >= {'count', 'size'}


# ---------------------------------------------------------------------- P4
@rule('P4', floor=1, title='`A if p is None else B`: the non-None branch uses the parameter that was tested')
def p4(ctx):
    obs = []
    for f in ctx.prog.all_funcs():
        params = set(f.posparams) | set(f.kwonly)
        # the conditional expression supplies a value *for the tested parameter*: it is passed as the keyword of
        # the same name, or assigned to the parameter / an attribute named after it
        role_sites = {}
        for m in walk_shallow(f.node):
            if isinstance(m, ast.keyword) and m.arg and isinstance(m.value, ast.IfExp):
                role_sites[id(m.value)] = m.arg
            if isinstance(m, ast.Assign) and isinstance(m.value, ast.IfExp) and len(m.targets) == 1:
                t = m.targets[0]
                if isinstance(t, ast.Name):
                    role_sites[id(m.value)] = t.id
                elif isinstance(t, ast.Attribute):
                    role_sites[id(m.value)] = t.attr.lstrip('_')
        for n in walk_shallow(f.node):
            if not isinstance(n, ast.IfExp):
                continue
            t = n.test
            if not (isinstance(t, ast.Compare) and len(t.ops) == 1 and isinstance(t.ops[0], (ast.Is, ast.IsNot))):
                continue
            l, r = t.left, t.comparators[0]
            if isinstance(l, ast.Constant) and l.value is None and isinstance(r, ast.Name):
                l, r = r, l         # `None is p`
            if not (isinstance(l, ast.Name) and isinstance(r, ast.Constant) and r.value is None):
                continue
            p = l.id
            if p not in params:
                continue
            if role_sites.get(id(n)) != p:
                continue        # a branch on the parameter that computes something else (not a default for it)
            other = n.orelse if isinstance(t.ops[0], ast.Is) else n.body
            uses = any(isinstance(m, ast.Name) and m.id == p for m in ast.walk(other))
            const_other = isinstance(other, ast.Constant)
            key = '%s/%s' % (f.qual, p)
            k2 = key
            i = 1
            while any(o.key == k2 for o in obs):
                i += 1
                k2 = '%s#%d' % (key, i)
            obs.append(Ob('P4', k2, uses or const_other,
                          'the branch taken when `%s` is given evaluates `%s`, which ignores `%s`: the caller\'s '
                          'argument is silently dropped' % (p, ast.unparse(other), p), f.loc(n)))
    return obs


# ---------------------------------------------------------------------- P3
JSON_TEXT_DEFAULTS = {'ensure_ascii': (True,), 'indent': (None,), 'separators': (None, (', ', ': ')),
                      'sort_keys': (False,), 'cls': (None,)}


def _plain(v):
    """Python value of a constant or a tuple display of constants; a unique object otherwise."""
    if v.is_const:
        return v.val
    if v.k == 'tuple' and all(x.is_const for x in v.a[0]):
        return tuple(x.val for x in v.a[0])
    return object()


def format_facts(ctx):
    """The released on-disk format as values folded from the source."""
    it = Interp(ctx.prog)
    prog = ctx.prog
    facts = {}

    def const(name):
        e, m = prog.const_expr('core', name)
        if e is None:
            raise AnalysisError('P3: constant %s not found' % name)
        try:
            return it.fold(e, m)
        except ValueError:
            raise AnalysisError('P3: constant %s is not foldable' % name)
    facts['DBNAME'] = const('DBNAME')
    for n in ('MODE_NONE', 'MODE_RAW', 'MODE_BINARY', 'MODE_TEXT', 'MODE_PICKLE'):
        facts[n] = const(n)
    ds_e, _ = prog.const_expr('core', 'DEFAULT_SETTINGS')
    if not isinstance(ds_e, ast.Dict):
        raise AnalysisError('P3: DEFAULT_SETTINGS is not a dict literal')
    names = []
    ds = {}
    for k, v in zip(ds_e.keys, ds_e.values):
        names.append(k.value)
        try:
            ds[k.value] = it.fold(v, 'core')
        except ValueError:
            ds[k.value] = None
    facts['setting_names'] = sorted(names)
    facts['_all_setting_names'] = sorted(names)
    facts['sqlite_journal_mode'] = ds.get('sqlite_journal_mode')
    facts['sqlite_synchronous_not_off'] = ds.get('sqlite_synchronous') not in (0, '0', 'OFF', 'off', None)
    facts['metadata_names'] = sorted(const('METADATA'))
    # schema
    init = ctx.method('Cache', '__init__')
    tables = {}
    uniq = []
    for p in ctx.paths(init, 'plain')[:40]:
        for e in p.trace:
            if e.kind == 'SQL' and e.d['stmt'] is not None:
                st = e.d['stmt']
                if st.kind == 'create_table':
                    tables[st.table] = [[c[0], (c[1] or '').upper()] for c in st.table_cols]
                if st.kind == 'create_index' and st.unique:
                    if [st.table, list(st.index_cols)] not in uniq:
                        uniq.append([st.table, list(st.index_cols)])
    facts['tables'] = tables
    facts['unique'] = sorted(uniq)
    # counter triggers by name: a directory of the released version keeps its triggers (IF NOT EXISTS), so a renamed
    # or merged trigger set runs in addition to the old one and every row is counted twice
    trig = {}
    for p in ctx.paths(init, 'plain')[:40]:
        for e in p.trace:
            if e.kind == 'SQL' and e.d['stmt'] is not None and e.d['stmt'].kind == 'create_trigger':
                st = e.d['stmt']
                trig[st.name] = [st.trigger_event[0], st.trigger_event[1], st.table]
    facts['triggers'] = trig
    # shard directory names
    finit = ctx.method('FanoutCache', '__init__')
    namev = None
    for p in ctx.paths(finit, 'plain'):
        for e in p.trace:
            if e.kind == 'NEW' and e.d['name'] == 'Cache':
                dv = e.d['kwargs'].get('directory') or (e.d['args'][0] if e.d['args'] else None)
                if dv is not None and dv.k == 'ext' and dv.a[0] == 'os.path.join':
                    ja = p.trace[dv.a[1]].d['args']
                    if len(ja) == 2:
                        namev = ja[1]
    if namev is None:
        raise AnalysisError('P3: shard directory expression not found in FanoutCache.__init__')
    # the name is a format of the shard number: '<hole>' with a known format spec
    if not (namev.k == 'str' and namev.a[0].startswith('⟦') and namev.a[0].endswith('⟧') and namev.a[0].count('⟦') == 1
            and len(namev.a) > 2 and len(namev.a[2]) == 1 and namev.a[2][0] is not None
            and len(namev.a[1]) == 1 and namev.a[1][0].k == 'elem'
            and namev.a[1][0].a[0].k == 'term' and namev.a[1][0].a[0].a[0] == 'range'
            and len(namev.a[1][0].a[0].a[1]) == 1):
        raise AnalysisError('P3: shard directory name is not a foldable function of the shard number')
    names = {}
    for num in (0, 7, 123):
        names[str(num)] = format(num, namev.a[2][0])
    facts['shard_dirs'] = names
    # sub-caches: constant path components between the fanout directory and the name parts
    sub = {}
    fc = ctx.prog.classes['FanoutCache']
    for m in ('cache', 'deque', 'index'):
        f = fc.methods.get(m)
        for p in ctx.paths(f, 'default'):
            for e in p.trace:
                if e.kind == 'NEW' and e.d['name'] == 'Cache':
                    dv = e.d['kwargs'].get('directory') or (e.d['args'][0] if e.d['args'] else None)
                    if dv is None:
                        continue
                    consts = [x.val for x in deep_values(dv, p.trace) if x.is_const and isinstance(x.val, str)
                              and x.val not in ('/',)]
                    if consts:
                        sub[m] = consts[0] if len(consts) == 1 else sorted(set(consts))[0] if len(set(consts)) == 1 else consts[0]
    facts['subdirs'] = sub
    # queue keys
    from .rules_queue import _runs, _range_select, _bounds
    q = {}
    for prefix in (None, 'p'):
        f, paths = _runs(ctx, 'push', prefix)
        for p in paths:
            ev = _range_select(p)
            if ev is None:
                continue
            lo, hi, _, _, _, _ = _bounds(ev)
            q['bounds_%s' % ('int' if prefix is None else 'prefix')] = [lo.val if lo is not None and lo.is_const else None,
                                                                         hi.val if hi is not None and hi.is_const else None]
            empty = any(e.kind == 'TEST' and e.d['val'] == V('rows', ev.seq) and not e.d['truth'] for e in p.trace)
            if empty:
                for ins in sql_events(p.trace, 'insert', 'Cache'):
                    params = ins.d.get('params')
                    for sl, pv in zip(ins.d['stmt'].slots(), params):
                        if sl[0] == 'value' and sl[1] == 'key' and pv.is_const:
                            q['start_%s' % ('int' if prefix is None else 'prefix')] = pv.val
    facts['queue'] = q
    # hash recipe per key type
    hf = ctx.method('Disk', 'hash')
    recipes = {}
    for p in ctx.paths(hf, 'plain'):
        if p.kind != 'return':
            continue
        t = None
        for e in p.trace:
            if e.kind == 'TEST' and e.d['truth'] and e.d['val'].k == 'cmp' and e.d['val'].a[0] == ('Is',):
                for x in e.d['val'].a[1]:
                    if x.k == 'builtin':
                        t = x.a[0]
                    if x.k == 'extfn' and x.a[0] == 'sqlite3.Binary':
                        t = 'Binary'
        if t is None:
            t = 'float' if any(e.kind == 'TEST' and 'float' in e.d['src'] for e in p.trace) else 'else'
        rv = p.outcome[1]
        recipes[t] = _render_hash(rv, p.trace)
    facts['hash'] = recipes
    # file naming
    ff = ctx.method('Disk', 'filename')
    src = ast.unparse(ff.node)
    facts['filename'] = {
        'random_bytes': _entropy_bytes(ctx, ff),
        'suffix': [n.value for n in ast.walk(ff.node) if isinstance(n, ast.Constant) and isinstance(n.value, str)
                   and n.value.startswith('.')][:1],
        'slices': sorted(ast.unparse(n.slice) for n in ast.walk(ff.node) if isinstance(n, ast.Subscript)
                         and isinstance(n.slice, ast.Slice)),
        'relative': _filename_relative(ctx),
    }
    # pickle of keys optimized; JSONDisk recipe
    put = ctx.method('Disk', 'put')
    facts['key_pickle_optimized'] = any(isinstance(n, ast.Call) and (dotted(n.func) or '') == 'pickletools.optimize'
                                        for n in ast.walk(put.node))
    j = ctx.prog.classes.get('JSONDisk')
    if j is not None:
        names = set()
        form = set()
        for m in j.methods.values():
            for p in ctx.paths(m, 'plain'):
                for e in p.trace:
                    if e.kind == 'EXT' and e.d['name'].split('.')[0] in ('json', 'zlib'):
                        names.add(e.d['name'])
                    # the JSON text IS the database key (compared as bytes): options that change the text of the same
                    # object make every composite key written by the released version unfindable
                    if e.kind == 'EXT' and e.d['name'] in ('json.dumps', 'json.dump'):
                        for k, v in sorted(e.d['kwargs'].items()):
                            dflt = JSON_TEXT_DEFAULTS.get(k, ())
                            if k in JSON_TEXT_DEFAULTS and _plain(v) not in dflt:
                                form.add('%s.%s' % (m.name, k))
                        if len(e.d['args']) > 1:
                            form.add('%s.positional-options' % m.name)
        facts['jsondisk'] = sorted(names)
        facts['jsondisk_text_options'] = sorted(form)
    # text codec of value files
    from .rules_codec import _store_paths, _open_events, _open_recipe, _codec_name
    from .rules_file import _mode_name
    sf, sp = _store_paths(ctx)
    enc = set()
    for p in sp:
        if _mode_name(ctx, p.outcome[1].a[0][1]) == 'MODE_TEXT':
            for o in _open_events(p.trace):
                enc.add(_codec_name(_open_recipe(o)['encoding']))
    facts['text_codec'] = sorted(map(str, enc))
    return facts


def _filename_relative(ctx):
    """Disk.filename returns (relative name, os.path.join(self._directory, relative name))."""
    f = ctx.method('Disk', 'filename')
    ok = False
    for p in ctx.paths(f, 'plain'):
        if p.kind != 'return':
            continue
        rv = p.outcome[1]
        if rv.k != 'tuple' or len(rv.a[0]) != 2:
            return False
        rel, full = rv.a[0]
        if not (full.k == 'ext' and full.a[0] == 'os.path.join'):
            return False
        je = p.trace[full.a[1]]
        a = je.d['args']
        ok = len(a) == 2 and a[0].k == 'selfattr' and a[0].a[1] == '_directory' and a[1] == rel
        if not ok:
            return False
    return ok


def _entropy_bytes(ctx, ff):
    """Bytes of OS entropy a value-file name is made of: os.urandom(n), secrets.token_hex/token_bytes(n) or
    uuid.uuid4() (16).  A process-level PRNG (random.Random, random.getrandbits ...) is not fork-safe: parent and
    child would produce the same names - it gives None, which does not match the released format."""
    for n in ast.walk(ff.node):
        if isinstance(n, ast.Call):
            full = ctx.prog.resolve_name(ff.module, dotted(n.func) or '')
            if full in ('os.urandom', 'secrets.token_hex', 'secrets.token_bytes') and n.args:
                try:
                    return ctx.fold(n.args[0], ff.module)
                except ValueError:
                    return None
            if full == 'uuid.uuid4':
                return 16
    return None


def _int_arg(node, fname):
    for n in ast.walk(node):
        if isinstance(n, ast.Call) and (dotted(n.func) or '').endswith(fname) and n.args and isinstance(n.args[0], ast.Constant):
            return n.args[0].value
    return None


def _render_hash(v, trace):
    if v.k == 'term':
        op, args = v.a
        return '%s(%s)' % (op, ', '.join(_render_hash(a, trace) for a in args))
    if v.k == 'ext':
        ev = trace[v.a[1]]
        return '%s(%s)' % (v.a[0], ', '.join(_render_hash(a, trace) for a in ev.d['args']))
    if v.k == 'mcall':
        ev = trace[v.a[1]]
        return '%s.%s(%s)' % (_render_hash(ev.d['recv'], trace), v.a[0], ', '.join(_render_hash(a, trace) for a in ev.d['args']))
    if v.is_const:
        return repr(v.val)
    if v.k == 'putelt':
        return 'dbkey'
    return v.k


def _flatten(prefix, v, out):
    if isinstance(v, dict):
        for k in sorted(v):
            _flatten('%s.%s' % (prefix, k) if prefix else str(k), v[k], out)
    else:
        out[prefix] = v


@rule('P3', floor=30, title='released on-disk format: names, modes, schema, shard dirs, queue keys, hash recipe equal the 5.6.3 reference')
def p3(ctx):
    if not os.path.exists(REFERENCE):
        raise AnalysisError('reference %s missing' % REFERENCE)
    with open(REFERENCE) as f:
        ref = json.load(f)
    facts = json.loads(json.dumps(format_facts(ctx)))
    # a new setting is compatible with released directories (its row is simply inserted with the default): only
    # the released names have to survive
    facts.pop('_all_setting_names', None)
    facts['setting_names'] = sorted(set(facts['setting_names']) & set(ref.get('setting_names', []))) \
        if set(ref.get('setting_names', [])) <= set(facts['setting_names']) else facts['setting_names']
    a, b = {}, {}
    _flatten('', ref, a)
    _flatten('', facts, b)
    obs = []
    for k in sorted(set(a) | set(b)):
        ok = a.get(k, '<absent>') == b.get(k, '<absent>')
        obs.append(Ob('P3', k, ok, 'on-disk format fact %s is %r in the current tree but %r in the released format: '
                      'directories written by the released version would no longer be found/read' %
                      (k, b.get(k, '<absent>'), a.get(k, '<absent>')), 'diskcache/core.py:1'))
    return obs


# ---------------------------------------------------------------------- P5
@rule('P5', floor=20, title='statements name only schema objects that every handle is guaranteed to find (tables/indexes created '
                            'unconditionally by __init__ and never dropped)')
def p5(ctx):
    """A handle's cached copy of a setting says nothing about what another handle did to the database file: a
    statement that names an optional index (INDEXED BY) or table fails with "no such index/table" once another
    handle has dropped it."""
    from .rules_lock import core_entries
    init = ctx.method('Cache', '__init__')
    always = None       # objects created on every normal path of __init__
    for p in ctx.paths(init, 'plain'):
        if p.kind not in ('return', 'next'):
            continue
        made = set()
        for e in sql_events(p.trace):
            st = e.d['stmt']
            if st is not None and st.kind == 'create_table':
                made.add(('table', st.table))
            if st is not None and st.kind == 'create_index' and st.name:
                made.add(('index', st.name))
        always = made if always is None else (always & made)
    if not always:
        raise AnalysisError('P5: no schema object is created on every path of Cache.__init__')
    dropped = set()
    uses = {}
    for f in core_entries(ctx):
        for p in ctx.paths(f, 'default'):
            for e in sql_events(p.trace):
                st = e.d['stmt']
                if st is None:
                    continue
                if st.kind == 'drop_index':
                    dropped.add(('index', st.name))
                for s in (st, st.subselect if isinstance(st.subselect, sqlmod.Stmt) else None):
                    if s is None:
                        continue
                    if s.kind in ('select', 'insert', 'update', 'delete') and s.table and '⟦' not in str(s.table):
                        uses.setdefault((e.fn.qual, 'table', s.table), e)
                    if s.indexed_by:
                        uses.setdefault((e.fn.qual, 'index', s.indexed_by), e)
    obs = []
    for (q, kind, name), e in sorted(uses.items(), key=lambda kv: kv[0]):
        ok = (kind, name) in always and (kind, name) not in dropped
        obs.append(Ob('P5', '%s/%s:%s' % (q.replace('core.', ''), kind, name), ok,
                      'the statement names %s %s, which is not created unconditionally by Cache.__init__%s: whether it '
                      'exists is decided by other handles on the directory, not by this object\'s cached settings, so '
                      'the statement can fail with "no such %s"' %
                      (kind, name, ' (and is dropped by another method)' if (kind, name) in dropped else '', kind),
                      e.fn.loc(e.node)))
    return obs


# ---------------------------------------------------------------------- P6
@rule('P6', floor=1, title='a sharded cache hands its shards only the settings its caller supplied (an explicit default would '
                           'override what the directory stores)')
def p6(ctx):
    """Cache.__init__ layers explicit arguments over the stored settings and writes them back.  A FanoutCache that
    passes `name=<default>` explicitly when its caller did not give `name` resets the stored value of every shard on
    each reopen / unpickle."""
    f = ctx.method('FanoutCache', '__init__')
    sites = {}
    n = 0
    for p in ctx.paths(f, 'plain'):
        for e in p.trace:
            if not (e.kind == 'NEW' and e.d['name'] == 'Cache'):
                continue
            n += 1
            for name, v in e.d['kwargs'].items():
                if name in ('directory', 'timeout', 'disk'):
                    continue        # not stored settings
                bad = None
                for x in deep_values(v, p.trace):
                    if x.k == 'mcall' and x.a[0] in ('pop', 'get', 'setdefault') and isinstance(x.a[1], int):
                        ev = p.trace[x.a[1]]
                        r = ev.d.get('recv')
                        if r is not None and r.k == 'param' and r.a[0].startswith('**') and len(ev.d['args']) >= 2:
                            bad = ev
                    if x.k == 'modconst' and 'SETTINGS' in x.a[1]:
                        bad = e
                sites.setdefault(name, bad if bad is not None else sites.get(name))
                if bad is not None:
                    sites[name] = bad
    if n == 0:
        raise AnalysisError('P6: FanoutCache.__init__ creates no Cache')
    obs = []
    for name, bad in sorted(sites.items()):
        obs.append(Ob('P6', 'FanoutCache.__init__/explicit-default:%s' % name, bad is None,
                      'every shard is created with %s=<value with a built-in fallback> even when the caller did not '
                      'supply %s: the explicit argument overrides the value stored in the directory, so reopening or '
                      'unpickling a FanoutCache created with a non-default %s resets it for every handle' %
                      (name, name, name), f.loc(bad.node) if bad is not None else f.loc()))
    if not obs:
        obs.append(Ob('P6', 'FanoutCache.__init__/no-derived-settings', True, '', f.loc(), nontrivial=False))
    return obs


# ---------------------------------------------------------------------- P7
@rule('P7', floor=6, title='tables, the unique key index and the counter triggers are created on every path of __init__')
def p7(ctx):
    """`CREATE ... IF NOT EXISTS` is what makes an interrupted first initialisation (or a directory from an older
    version) heal on the next open; guarding the statements by "fresh database" leaves it broken for good."""
    init = ctx.method('Cache', '__init__')
    seen = {}
    paths = [p for p in ctx.paths(init, 'plain') if p.kind in ('return', 'next')]
    if not paths:
        raise AnalysisError('P7: Cache.__init__ has no normal path')
    for p in paths:
        for e in sql_events(p.trace):
            st = e.d['stmt']
            if st is None:
                continue
            if st.kind == 'create_table':
                seen.setdefault(('table', st.table), e)
            elif st.kind == 'create_index' and st.unique:
                seen.setdefault(('unique index', st.name), e)
            elif st.kind == 'create_trigger':
                seen.setdefault(('trigger', st.name), e)
    obs = []
    # nothing ever drops a table or a trigger: Cache.__init__ runs in autocommit, so between a DROP TRIGGER and the
    # CREATE that follows other connections write rows that no trigger counts
    from .rules_lock import core_entries
    drops = []
    for g in core_entries(ctx):
        for p in ctx.paths(g, 'plain' if g is init else 'default'):
            for e in sql_events(p.trace):
                st = e.d['stmt']
                if st is not None and st.kind in ('drop_trigger', 'drop_table'):
                    drops.append(e)
                elif st is not None and st.kind == 'unknown' and (e.d.get('text') or '').lstrip().upper().startswith('DROP'):
                    drops.append(e)
    obs.append(Ob('P7', 'no-table-or-trigger-dropped', not drops,
                  'a statement drops a table or trigger (%s): connections are in autocommit mode, so until it is '
                  're-created other clients insert and delete rows that the counters never see' %
                  ((drops[0].d.get('text') or '')[:50] if drops else ''),
                  drops[0].fn.loc(drops[0].node) if drops else init.loc()))
    for (kind, name), e in sorted(seen.items()):
        missing = None
        for p in paths:
            have = False
            for x in sql_events(p.trace):
                st = x.d['stmt']
                if st is not None and ((kind == 'table' and st.kind == 'create_table' and st.table == name) or
                                       (kind == 'unique index' and st.kind == 'create_index' and st.name == name) or
                                       (kind == 'trigger' and st.kind == 'create_trigger' and st.name == name)):
                    have = True
            if not have:
                missing = p
                break
        ine = 'IF NOT EXISTS' in (e.d['stmt'].text or '').upper()
        obs.append(Ob('P7', 'Cache.__init__/%s:%s' % (kind, name), missing is None and ine,
                      '%s %s is %s: a directory whose first initialisation was interrupted before this statement (or '
                      'that was created by another version) never gets it, so counters stop following the rows / '
                      'lookups fail for good' % (kind, name, 'created only on some paths of __init__' if missing
                                                 is not None else 'created without IF NOT EXISTS'),
                      e.fn.loc(e.node), fmt_trace(missing.trace) if missing is not None else None))
    return obs
