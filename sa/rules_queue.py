"""Q rules: push / pull / peek sibling agreement and key-range shape."""
import ast

from .framework import rule, Ob, fmt_trace, sql_events, call_events, values_in
from .model import AnalysisError
from .interp import Interp, Opts
from .values import V, C
from . import sql as sqlmod

QFUNCS = ('push', 'pull', 'peek')
LO, HI, START = 0, 999999999999999, 500000000000000


def _runs(ctx, name, prefix):
    """Paths of a queue function with `prefix` bound to a constant (None or 'p')."""
    f = ctx.method('Cache', name)
    key = ('Q', name, repr(prefix))
    cache = ctx.__dict__.setdefault('_qcache', {})
    if key not in cache:
        it = Interp(ctx.prog, ctx.opts('plain'))
        cache[key] = it.run(f, env={'prefix': C(prefix)})
        ctx.stats['paths'] += len(cache[key])
        ctx.stats['events'] += it.nevents
        ctx.stats['functions'].add(f.qual)
    return f, cache[key]


def _range_select(p):
    """The head/tail SELECT of a queue function on this path."""
    for ev in sql_events(p.trace, 'select', 'Cache'):
        st = ev.d['stmt']
        if st.where is not None and sqlmod.mentions_col(st.where, 'key') and st.limit is not None:
            return ev
    return None


def _side_of(p):
    for e in p.trace:
        if e.kind == 'CHOICE' and e.d['key'].k == 'param' and e.d['key'].a[0] == 'side':
            return e.d['chosen']
    return None


def _bounds(ev):
    """(lower, upper, lower strict, upper strict, raw pinned, extra conjuncts) of the range query."""
    st = ev.d['stmt']
    params = ev.d.get('params')
    plist = [] if params is None or isinstance(params, V) else list(params)
    lo = hi = None
    los = his = None
    raw = None
    extra = []

    def val(e):
        if e[0] == 'param':
            return plist[e[1]] if e[1] < len(plist) else None
        if e[0] in ('num', 'str'):
            return C(e[1])
        return None

    def visit(w):
        nonlocal lo, hi, los, his, raw
        if w[0] == 'and':
            visit(w[1])
            visit(w[2])
            return
        if w[0] == 'cmp':
            _, op, l, r = w
            lc, rc = sqlmod.colname(l), sqlmod.colname(r)
            if lc == 'key' or rc == 'key':
                other = r if lc == 'key' else l
                nop = op if lc == 'key' else {'<': '>', '<=': '>=', '>': '<', '>=': '<='}.get(op, op)
                if nop in ('>', '>='):
                    lo, los = val(other), nop == '>'
                    return
                if nop in ('<', '<='):
                    hi, his = val(other), nop == '<'
                    return
            if (lc == 'raw' or rc == 'raw') and op == '=':
                raw = val(r if lc == 'raw' else l)
                return
        extra.append(w)
    if st.where is not None:
        visit(st.where)
    return lo, hi, los, his, raw, extra


@rule('Q1', floor=12, title='push, pull and peek agree on the key range, the raw flag, the side->order map and the key format')
def q1(ctx):
    obs = []
    facts = {}
    for name in QFUNCS:
        for prefix in (None, 'p'):
            f, paths = _runs(ctx, name, prefix)
            for p in paths:
                ev = _range_select(p)
                if ev is None:
                    continue
                side = _side_of(p)
                st = ev.d['stmt']
                lo, hi, los, his, raw, extra = _bounds(ev)
                d = facts.setdefault((name, prefix), {})
                d.setdefault('bounds', set()).add((repr(lo), repr(hi), los, his))
                d.setdefault('raw', set()).add(repr(raw))
                d.setdefault('order', set()).add((side, tuple((sqlmod.colname(e), dr) for e, dr in st.order),
                                                 repr(st.limit)))
                d['f'] = f
                d['ev'] = ev
                if name == 'push':
                    # inserted key on this path
                    for ins in sql_events(p.trace, 'insert', 'Cache'):
                        params = ins.d.get('params')
                        if params is None or isinstance(params, V):
                            continue
                        for sl, pv in zip(ins.d['stmt'].slots(), params):
                            if sl[0] == 'value' and sl[1] == 'key':
                                empty = any(e.kind == 'TEST' and e.d['val'] == V('rows', ev.seq)
                                            and not e.d['truth'] for e in p.trace)
                                d.setdefault('newkey', set()).add((side, empty, repr(pv)))
                                d.setdefault('newkey_v', []).append((side, empty, pv))
                            if sl[0] == 'value' and sl[1] == 'raw':
                                d.setdefault('insraw', set()).add(repr(pv))
    want_bounds = {None: (repr(C(LO)), repr(C(HI)), True, True),
                   'p': (repr(C('p-%015d' % LO)), repr(C('p-%015d' % HI)), True, True)}
    for name in QFUNCS:
        for prefix in (None, 'p'):
            d = facts.get((name, prefix))
            if not d:
                raise AnalysisError('Q1: no range query found in Cache.%s (prefix=%r)' % (name, prefix))
            loc = d['f'].loc(d['ev'].node)
            tag = 'Cache.%s/%s' % (name, 'int' if prefix is None else 'prefix')
            obs.append(Ob('Q1', tag + '/bounds', d['bounds'] == {want_bounds[prefix]},
                          'queue key range is %s; push, pull and peek must all use the open interval (%s, %s)' %
                          (sorted(d['bounds']), want_bounds[prefix][0], want_bounds[prefix][1]), loc))
            obs.append(Ob('Q1', tag + '/raw-pinned', d['raw'] <= {repr(C(True)), repr(C(1))} and bool(d['raw']) and
                          'None' not in d['raw'],
                          'the queue query does not pin raw to true: a pickled key inside the range would be taken for '
                          'a queue element', loc))
            want_order = {('front', (('key', 'ASC'),), repr(('num', 1))), ('back', (('key', 'DESC'),), repr(('num', 1)))}
            if name == 'push':
                want_order = {('back', (('key', 'DESC'),), repr(('num', 1))), ('front', (('key', 'ASC'),), repr(('num', 1)))}
            obs.append(Ob('Q1', tag + '/side-order', d['order'] == want_order,
                          'side -> ORDER BY map is %s; front must read the smallest key (ASC), back the largest (DESC), '
                          'LIMIT 1' % sorted(d['order']), loc))
    # push: neighbour computation, start key, text format, raw of the inserted row
    d = facts[('push', None)]
    loc = d['f'].loc()
    nk = d.get('newkey', set())
    startk = {(s, r) for s, e, r in nk if e}
    obs.append(Ob('Q1', 'Cache.push/int/start-key', startk == {('back', repr(C(START))), ('front', repr(C(START)))}
                  and LO < START < HI, 'first key of an empty queue is %s; expected %d strictly inside the range' %
                  (sorted(startk), START), loc))
    nonempty = {(s, r) for s, e, r in nk if not e}
    okn = len(nonempty) == 2
    for s, r in nonempty:
        if s == 'back' and not (r.startswith("term('Add'") and 'C(1)' in r and "'key'" in r):
            okn = False
        if s == 'front' and not (r.startswith("term('Sub'") and 'C(1)' in r and "'key'" in r):
            okn = False
    obs.append(Ob('Q1', 'Cache.push/int/neighbour', okn, 'push does not insert head-1 at the front and tail+1 at the '
                  'back: %s' % sorted(nonempty), loc))
    d = facts[('push', 'p')]
    nk = d.get('newkey', set())
    startk = {(s, r) for s, e, r in nk if e}
    obs.append(Ob('Q1', 'Cache.push/prefix/start-key-format',
                  startk == {('back', repr(C('p-%015d' % START))), ('front', repr(C('p-%015d' % START)))},
                  'first key of an empty prefixed queue is %s; expected %r (15 digits, matching the bounds)' %
                  (sorted(startk), 'p-%015d' % START), loc))
    obs.append(Ob('Q1', 'Cache.push/inserted-raw', facts[('push', None)].get('insraw') == {repr(C(True))} and
                  facts[('push', 'p')].get('insraw') == {repr(C(True))},
                  'push inserts its row with raw != True while the readers filter on raw = 1', loc))
    # width of the number format for an existing key: instantiate the inserted key text with number 7
    f = ctx.method('Cache', 'push')
    fmts = []
    for side, empty, pv in facts[('push', 'p')].get('newkey_v', []):
        if empty:
            continue
        if pv.k == 'str' and pv.a[0].count('⟦') == 1 and len(pv.a) > 2 and len(pv.a[2]) == 1 and pv.a[2][0] is not None:
            head = pv.a[0][:pv.a[0].index('⟦')]
            tail = pv.a[0][pv.a[0].index('⟧') + 1:]
            try:
                fmts.append(head + format(7, pv.a[2][0]) + tail)
            except Exception:
                fmts.append('?')
        else:
            fmts.append(repr(pv))
    fmts = sorted(set(fmts))
    obs.append(Ob('Q1', 'Cache.push/prefix/number-width', fmts == ['p-%015d' % 7],
                  'the text form of a queue key for number 7 is %s; expected %r so that text order equals numeric order '
                  'and the bounds enclose it' % (fmts, 'p-%015d' % 7), f.loc()))
    return obs


@rule('Q2', floor=3, title='a prefixed queue range must match prefix-<15 digits> only (length/pattern conjunct)')
def q2(ctx):
    obs = []
    for name in QFUNCS:
        f, paths = _runs(ctx, name, 'p')
        ok = None
        ev0 = None
        for p in paths:
            ev = _range_select(p)
            if ev is None:
                continue
            ev0 = ev
            lo, hi, los, his, raw, extra = _bounds(ev)
            shaped = False
            for w in extra:
                txt = sqlmod.render(w).lower()
                if 'length' in txt or 'glob' in txt or 'like' in txt or 'substr' in txt:
                    shaped = True
            ok = shaped if ok is None else (ok and shaped)
        if ok is None:
            raise AnalysisError('Q2: no range query in Cache.%s' % name)
        obs.append(Ob('Q2', 'Cache.%s/prefix-range-shape' % name, ok,
                      "the range 'p-000000000000000' < key < 'p-999999999999999' over variable-length text also admits "
                      "keys such as 'p-5-500000000000000' (queue with prefix 'p-5'): queues whose prefixes extend one "
                      'another interfere', f.loc(ev0.node)))
    return obs


@rule('Q3', floor=1, title='the counter of a queue key is cut out by position, never by character-set stripping with the prefix')
def q3(ctx):
    """str.strip/lstrip/rstrip take a *set of characters*: `key.lstrip(prefix + '-')` also eats leading digits of
    the counter whenever the prefix contains a digit or the counter's leading characters occur in the prefix."""
    obs = []
    n = 0
    from .rules_check import _with_helpers
    for name in ('push', 'pull', 'peek'):
        f = ctx.method('Cache', name)
        for g in _with_helpers(ctx, f):
            for node in ast.walk(g.node):
                if not (isinstance(node, ast.Call) and isinstance(node.func, ast.Attribute)
                        and node.func.attr in ('strip', 'lstrip', 'rstrip')):
                    continue
                n += 1
                arg = node.args[0] if node.args else None
                ok = arg is None or (isinstance(arg, ast.Constant) and isinstance(arg.value, str)
                                     and len(arg.value) <= 1)
                if not ok:
                    try:
                        v = ctx.fold(arg, g.module)
                        ok = isinstance(v, str) and len(v) <= 1
                    except ValueError:
                        ok = False
                obs.append(Ob('Q3', 'Cache.%s/%s#%d' % (name, node.func.attr, n), ok,
                              '%s(%s) strips a set of characters, not a prefix: with a prefix that contains digits the '
                              'leading digits of the 15-digit counter are eaten too, the next key is computed from a '
                              'wrong number and the new item overwrites or precedes existing ones' %
                              (node.func.attr, ast.unparse(arg) if arg is not None else ''), g.loc(node)))
    # the parse of the neighbour key in push: int(<text after the last separator>)
    f = ctx.method('Cache', 'push')
    ints = [node for g in _with_helpers(ctx, f) for node in ast.walk(g.node)
            if isinstance(node, ast.Call) and isinstance(node.func, ast.Name) and node.func.id == 'int']
    obs.append(Ob('Q3', 'Cache.push/parses-counter', bool(ints), 'push no longer derives the next key from the integer '
                  'value of the neighbour key', f.loc(), nontrivial=True))
    return obs
