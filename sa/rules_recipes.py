"""L3 and O rules: recipes and persistent containers built on atomic primitives."""
import ast

from .framework import rule, Ob, fmt_trace, values_in, real_call
from .model import AnalysisError, walk_shallow, dotted
from .values import V

CACHE_DATA = {'get', 'set', 'add', 'pop', 'delete', 'incr', 'decr', 'touch', 'push', 'pull', 'peek', 'peekitem',
              '__getitem__', '__setitem__', '__delitem__', '__len__', 'popleft', 'pop', 'append', 'appendleft'}

# functions whose read-modify-write must sit in one `with <cache>.transact(retry=True)` block
L3_BLOCKS = [
    ('recipes.Averager.add', ('get', 'set')),
    ('recipes.RLock.acquire', ('get', 'set')),
    ('recipes.RLock.release', ('get', 'set')),
    ('recipes.BoundedSemaphore.acquire', ('get', 'set')),
    ('recipes.BoundedSemaphore.release', ('get', 'set')),
    ('recipes.throttle.<locals>.decorator.<locals>.wrapper', ('get', 'set')),
    ('persistent.Deque.append', ('push', '__len__', 'popleft')),
    ('persistent.Deque.appendleft', ('push', '__len__', 'pop')),
    ('persistent.Deque.maxlen@setter', ('__len__', 'popleft')),
    ('persistent.Index.popitem', ('peekitem', '__delitem__')),
]


def _data_calls(trace, fn):
    return [e for e in trace if real_call(e) and e.d['targets'][0].name in CACHE_DATA
            and any(t.cls in ('Cache', 'FanoutCache', 'Deque') for t in e.d['targets'])]


@rule('L3', floor=14, title='recipes/containers: each read-modify-write sits in one retrying transaction block, or uses one atomic primitive')
def l3(ctx):
    obs = []
    for qual, ops in L3_BLOCKS:
        f = ctx.func(qual)
        ok, why, wit = True, '', None
        n = 0
        seen_ops = set()
        for p in ctx.paths(f, 'default'):
            if p.kind == 'cut':
                continue
            calls = _data_calls(p.trace, f)
            if not calls:
                continue
            n += 1
            insts = set()
            for c in calls:
                seen_ops.add(c.d['targets'][0].name)
                if not c.txn:
                    ok, why, wit = False, '%s is called outside the transaction block' % c.d['targets'][0].name, fmt_trace(p.trace)
                else:
                    insts.add(c.txn[0])
            if len(insts) > 1:
                # several blocks on one path are fine only in spin loops where each iteration is complete in itself
                for inst in insts:
                    names = {c.d['targets'][0].name for c in calls if c.txn and c.txn[0] == inst}
                    writes = names & {'set', 'push', 'pop', 'popleft', '__delitem__', 'delete', 'add'}
                    reads = names & {'get', '__len__', 'peekitem'}
                    if writes and not reads:
                        ok, why, wit = False, 'a write runs in a different block than the read it depends on', fmt_trace(p.trace)
            enters = [e for e in p.trace if e.kind == 'TXN_ENTER']
            for e in enters:
                r = e.d['retry']
                if not (r.is_const and r.val is True):
                    ok, why, wit = False, 'the block is entered with retry=%r: it can raise Timeout' % (r,), fmt_trace(p.trace)
        missing = [o for o in ops if o not in seen_ops]
        if missing and ok:
            ok, why = False, 'expected operations %s not found (read/modify/write shape changed)' % missing
        obs.append(Ob('L3', qual.replace('recipes.', '').replace('persistent.', '').replace(
            '.<locals>.decorator.<locals>.wrapper', '.wrapper') + '/one-block', ok and n > 0,
            why or 'no cache operation found', f.loc(), wit))
    # Lock.acquire: leaves the loop only on a true result of add(..., retry=True)
    f = ctx.func('recipes.Lock.acquire')
    ok, why, wit = True, '', None
    n = 0
    for p in ctx.paths(f, 'default'):
        if p.kind == 'cut':
            continue
        calls = [e for e in p.trace if real_call(e)]
        if p.kind in ('return', 'next'):
            n += 1
            adds = [e for e in calls if e.d['name'] == 'add']
            if not adds or any(e.d['name'] in ('set', '__setitem__') for e in calls):
                ok, why, wit = False, 'the lock is taken with something other than the atomic add', fmt_trace(p.trace)
                continue
            last = adds[-1]
            r = last.d['kwargs'].get('retry')
            if not (r is not None and r.is_const and r.val is True):
                ok, why, wit = False, 'add is called without retry=True', fmt_trace(p.trace)
            rv = V('ret', last.seq, tuple(sorted(t.qual for t in last.d['targets'])))
            tests = [e for e in p.trace[last.seq:] if e.kind == 'TEST' and e.d['val'] == rv]
            if not tests or not tests[-1].d['truth']:
                ok, why, wit = False, 'the loop is left although add did not report success', fmt_trace(p.trace)
            kv = last.d['args'][0] if last.d['args'] else None
            if not (kv is not None and kv.k == 'selfattr' and kv.a[1] == '_key'):
                ok, why, wit = False, 'the lock key is not self._key', fmt_trace(p.trace)
    obs.append(Ob('L3', 'Lock.acquire/atomic-add-decides', ok and n > 0, why, f.loc(), wit))
    f = ctx.func('recipes.Lock.release')
    ok = False
    for p in ctx.paths(f, 'plain'):
        for e in p.trace:
            if e.kind == 'CALL' and e.d['name'] in ('delete', '__delitem__', 'pop') and e.d['args'] and \
                    e.d['args'][0].k == 'selfattr' and e.d['args'][0].a[1] == '_key':
                ok = True
    obs.append(Ob('L3', 'Lock.release/deletes-key', ok, 'release does not delete the lock key', f.loc()))
    # Index.setdefault: writes with add, returns what a lookup returns
    f = ctx.func('persistent.Index.setdefault')
    ok = True
    n = 0
    for p in ctx.paths(f, 'default'):
        writes = [e for e in p.trace if real_call(e) and e.d['name'] in ('set', '__setitem__', 'add')]
        for w in writes:
            n += 1
            if w.d['name'] != 'add':
                ok = False
        if p.kind == 'return':
            rv = p.outcome[1]
            if not (rv.k == 'ret' and any(q.endswith('__getitem__') for q in rv.a[1])):
                ok = False
    obs.append(Ob('L3', 'Index.setdefault/atomic-add', ok and n > 0, 'setdefault stores the default with something other '
                  'than the atomic add (or returns something other than the stored value): two clients could both '
                  'believe their default was stored', f.loc()))
    # Deque.rotate: each step pops one end and re-inserts THAT value at the other end
    f = ctx.func('persistent.Deque.rotate')
    ok, n, wit = True, 0, None
    pairs = {('pop', 'appendleft'), ('popleft', 'append')}
    for p in ctx.paths(f, 'default'):
        if p.kind == 'cut':
            continue
        calls = [e for e in p.trace if real_call(e) and e.d['targets'][0].cls == 'Deque']
        for i, e in enumerate(calls):
            tn = e.d['targets'][0].name
            if tn in ('append', 'appendleft'):
                n += 1
                a = e.d['args'][0] if e.d['args'] else None
                prev = [c for c in calls[:i] if c.d['targets'][0].name in ('pop', 'popleft')]
                good = False
                if a is not None and a.k == 'ret' and prev and a.a[0] == prev[-1].seq and \
                        (prev[-1].d['targets'][0].name, tn) in pairs:
                    good = True
                if not good:
                    ok, wit = False, fmt_trace(p.trace)
    obs.append(Ob('L3', 'Deque.rotate/pop-then-reinsert', ok and n > 0,
                  'a rotation step does not re-insert exactly the value it has just popped from the opposite end '
                  '(inserting before popping lets the maxlen trim of append discard an element)', f.loc(), wit))
    # Index.__eq__ / __ne__: absence is detected with the ENOVAL sentinel, never with a None default
    bad = []
    for mname in ('__eq__', '__ne__'):
        m = ctx.prog.classes['Index'].methods.get(mname)
        if m is None:
            continue
        for nnode in ast.walk(m.node):
            if isinstance(nnode, ast.Call) and isinstance(nnode.func, ast.Attribute) and nnode.func.attr == 'get':
                dflt = nnode.args[1] if len(nnode.args) > 1 else None
                for k in nnode.keywords:
                    if k.arg == 'default':
                        dflt = k.value
                if not (isinstance(dflt, ast.Name) and dflt.id == 'ENOVAL'):
                    bad.append(nnode)
            if isinstance(nnode, ast.comprehension) and ast.unparse(nnode.iter) == 'other':
                # iterating only the other mapping's keys cannot notice keys that only the index has
                src = ast.unparse(m.node)
                if 'isinstance(other, (Index, OrderedDict))' in src and 'for key in self' not in src.split('else:')[-1]:
                    bad.append(nnode)
    meq = ctx.prog.classes['Index'].methods.get('__eq__')
    obs.append(Ob('L3', 'Index.__eq__/sentinel-lookup', not bad and meq is not None,
                  'Index equality looks values up with a None default (or never iterates its own keys): a key missing '
                  'on one side compares equal to a None value on the other', meq.loc(bad[0]) if bad and meq else ''))
    # Averager.pop is a single atomic pop
    f = ctx.func('recipes.Averager.pop')
    ok = False
    for p in ctx.paths(f, 'plain'):
        calls = _data_calls(p.trace, f)
        ok = len(calls) == 1 and calls[0].d['targets'][0].name == 'pop'
    obs.append(Ob('L3', 'Averager.pop/single-pop', ok, 'Averager.pop is not one atomic pop: adds between the read and the '
                  'delete would be lost', f.loc()))
    return obs


# ---------------------------------------------------------------------- O rules
def _cmp_sets(ev, var_pred, other_pred):
    """Orderings (var ? other) under which the tested atom has the assumed truth."""
    v = ev.d['val']
    neg = False
    while v.k == 'not':
        v = v.a[0]
        neg = not neg
    if v.k != 'cmp' or len(v.a[0]) != 1 or v.a[0][0] not in ('Lt', 'LtE', 'Gt', 'GtE', 'Eq', 'NotEq'):
        return None
    a, b = v.a[1]
    if var_pred(a) and other_pred(b):
        flip = False
    elif var_pred(b) and other_pred(a):
        flip = True
    else:
        return None
    op = v.a[0][0]
    truth = ev.d['truth'] != neg
    out = set()
    for c, d in (('<', -1), ('=', 0), ('>', 1)):
        d2 = -d if flip else d
        r = {'Lt': d2 < 0, 'LtE': d2 <= 0, 'Gt': d2 > 0, 'GtE': d2 >= 0, 'Eq': d2 == 0, 'NotEq': d2 != 0}[op]
        if r == truth:
            out.add(c)
    return out


@rule('O0', floor=3, title='BoundedSemaphore: acquire only while value > 0, release only while value < initial, by one')
def o0(ctx):
    obs = []
    f = ctx.func('recipes.BoundedSemaphore.acquire')
    ok, wit, n = True, None, 0
    for p in ctx.paths(f, 'default'):
        sets = [e for e in p.trace if real_call(e) and e.d['name'] == 'set']
        for s in sets:
            n += 1
            gets = [e for e in p.trace[:s.seq] if real_call(e) and e.d['name'] == 'get']
            if not gets:
                ok, wit = False, fmt_trace(p.trace)
                continue
            gv = V('ret', gets[-1].seq, tuple(sorted(t.qual for t in gets[-1].d['targets'])))
            allowed = None
            for e in p.trace[gets[-1].seq:s.seq]:
                if e.kind == 'TEST':
                    c = _cmp_sets(e, lambda x: x == gv, lambda x: x.is_const and x.val == 0)
                    if c is not None:
                        allowed = c if allowed is None else (allowed & c)
            nv = s.d['args'][1] if len(s.d['args']) > 1 else None
            dec = nv is not None and nv.k == 'term' and nv.a[0] == 'Sub' and nv.a[1][0] == gv and \
                nv.a[1][1].is_const and nv.a[1][1].val == 1
            dflt = gets[-1].d['kwargs'].get('default')
            if allowed != {'>'} or not dec or not (dflt is not None and dflt.k == 'selfattr' and dflt.a[1] == '_value'):
                ok, wit = False, fmt_trace(p.trace)
    obs.append(Ob('O0', 'BoundedSemaphore.acquire/positive-then-decrement', ok and n > 0,
                  'acquire proceeds when the remaining permits are not > 0, or does not store value - 1 (missing key = '
                  'initial value): more than `value` holders could be inside', f.loc(), wit))
    f = ctx.func('recipes.BoundedSemaphore.release')
    ok, wit, n = True, None, 0
    for p in ctx.paths(f, 'default'):
        sets = [e for e in p.trace if real_call(e) and e.d['name'] == 'set']
        for s in sets:
            n += 1
            gets = [e for e in p.trace[:s.seq] if real_call(e) and e.d['name'] == 'get']
            gv = V('ret', gets[-1].seq, tuple(sorted(t.qual for t in gets[-1].d['targets']))) if gets else None
            allowed = None
            for e in p.trace[:s.seq]:
                if e.kind == 'TEST' and gv is not None:
                    c = _cmp_sets(e, lambda x: x == gv, lambda x: x.k == 'selfattr' and x.a[1] == '_value')
                    if c is not None:
                        allowed = c if allowed is None else (allowed & c)
            nv = s.d['args'][1] if len(s.d['args']) > 1 else None
            inc = nv is not None and nv.k == 'term' and nv.a[0] == 'Add' and gv in nv.a[1] and \
                any(x.is_const and x.val == 1 for x in nv.a[1])
            if allowed != {'<'} or not inc:
                ok, wit = False, fmt_trace(p.trace)
    obs.append(Ob('O0', 'BoundedSemaphore.release/below-initial-then-increment', ok and n > 0,
                  'release does not refuse when value >= initial, or does not store value + 1', f.loc(), wit))
    f = ctx.func('recipes.BoundedSemaphore.__init__')
    d = f.defaults.get('value')
    obs.append(Ob('O0', 'BoundedSemaphore.__init__/default-one', isinstance(d, ast.Constant) and d.value == 1,
                  'default permit count is not 1', f.loc()))
    return obs


@rule('O1', floor=2, title='RLock owner identity combines process id and thread id, identically in acquire and release')
def o1(ctx):
    obs = []
    shapes = {}
    for name in ('acquire', 'release'):
        f = ctx.func('recipes.RLock.' + name)
        ok = False
        shape = None
        for p in ctx.paths(f, 'default'):
            for e in p.trace:
                if real_call(e) and e.d['name'] == 'set' and len(e.d['args']) > 1:
                    v = e.d['args'][1]
                    owner = v.a[0][0] if v.k == 'tuple' and v.a[0] else None
                    if owner is None:
                        continue
                    vs = values_in(owner)
                    # in release the stored owner is the value read back; look at the identity compared with it
            ids = [e for e in p.trace if e.kind == 'TEST' and e.d['val'].k == 'cmp' and e.d['val'].a[0] == ('Eq',)]
            for t in ids:
                for x in t.d['val'].a[1]:
                    if x.k == 'str' or x.is_const:
                        deps = [y for y in values_in(x) if y.k == 'ext']
                        names = sorted({y.a[0] for y in deps})
                        if names:
                            import re as _re
                            shape = (_re.sub(r'⟦[^⟧]*⟧', '⟦⟧', x.a[0] if x.k == 'str' else str(x.val)), tuple(names))
            if shape and set(shape[1]) >= {'os.getpid', 'threading.get_ident'}:
                ok = True
        shapes[name] = shape
        obs.append(Ob('O1', 'RLock.%s/pid-and-tid' % name, ok,
                      'the owner identity compared in RLock.%s does not contain both os.getpid() and '
                      'threading.get_ident(): another thread or process would pass for the owner' % name, f.loc()))
    obs.append(Ob('O1', 'RLock/same-identity-format', shapes.get('acquire') == shapes.get('release') and
                  shapes.get('acquire') is not None, 'acquire and release build the owner identity differently: %s'
                  % shapes, ctx.func('recipes.RLock.acquire').loc()))
    return obs


@rule('O2', floor=3, title='RLock: re-acquire only by the owner or when free; release only by the owner with count > 0, by one')
def o2(ctx):
    obs = []
    f = ctx.func('recipes.RLock.acquire')
    ok, wit, n = True, None, 0
    for p in ctx.paths(f, 'default'):
        sets = [e for e in p.trace if real_call(e) and e.d['name'] == 'set']
        for s in sets:
            n += 1
            gets = [e for e in p.trace[:s.seq] if real_call(e) and e.d['name'] == 'get']
            if not gets:
                ok, wit = False, fmt_trace(p.trace)
                continue
            g = gets[-1]
            gv = V('ret', g.seq, tuple(sorted(t.qual for t in g.d['targets'])))
            owner_v, count_v = V('field', gv, 0), V('field', gv, 1)
            owner_eq = count_zero = None
            for e in p.trace[g.seq:s.seq]:
                if e.kind != 'TEST' or e.d['val'].k != 'cmp' or e.d['val'].a[0] != ('Eq',):
                    continue
                a, b = e.d['val'].a[1]
                if owner_v in (a, b):
                    owner_eq = e.d['truth']
                if count_v in (a, b) and any(x.is_const and x.val == 0 for x in (a, b)):
                    count_zero = e.d['truth']
            if not (owner_eq is True or count_zero is True):
                ok, wit = False, fmt_trace(p.trace)
            nv = s.d['args'][1] if len(s.d['args']) > 1 else None
            good = nv is not None and nv.k == 'tuple' and len(nv.a[0]) == 2 and nv.a[0][1].k == 'term' and \
                nv.a[0][1].a[0] == 'Add' and count_v in nv.a[0][1].a[1] and nv.a[0][0].k in ('str', 'const')
            if not good:
                ok, wit = False, fmt_trace(p.trace)
            d = g.d['kwargs'].get('default')
            if not (d is not None and ((d.is_const and d.val == (None, 0)) or
                                       (d.k == 'tuple' and d.a[0][1].is_const and d.a[0][1].val == 0))):
                ok, wit = False, fmt_trace(p.trace)
    obs.append(Ob('O2', 'RLock.acquire/owner-or-free', ok and n > 0,
                  'acquire writes (owner, count + 1) on a path where the stored owner is neither this thread nor the '
                  'count zero: two threads could hold the re-entrant lock', f.loc(), wit))
    f = ctx.func('recipes.RLock.release')
    ok, wit, n = True, None, 0
    for p in ctx.paths(f, 'default'):
        sets = [e for e in p.trace if real_call(e) and e.d['name'] == 'set']
        for s in sets:
            n += 1
            gets = [e for e in p.trace[:s.seq] if real_call(e) and e.d['name'] == 'get']
            g = gets[-1]
            gv = V('ret', g.seq, tuple(sorted(t.qual for t in g.d['targets'])))
            owner_v, count_v = V('field', gv, 0), V('field', gv, 1)
            # the assertion must have established owner == me and count > 0
            asserted = [e for e in p.trace[g.seq:s.seq] if e.kind == 'TEST' and e.d['truth']]
            ok_owner = ok_count = False
            for e in p.trace[g.seq:s.seq]:
                for x in values_in(e.d.get('val')) if e.kind == 'TEST' else []:
                    pass
            # the asserted value is the conjunction stored in a local: inspect its operands
            for e in p.trace[g.seq:s.seq]:
                if e.kind == 'TEST' and e.d['truth']:
                    for x in values_in(e.d['val']):
                        if x.k == 'cmp' and x.a[0] == ('Eq',) and owner_v in x.a[1]:
                            ok_owner = True
                        if x.k == 'cmp' and x.a[0] == ('Gt',) and x.a[1][0] == count_v and x.a[1][1].is_const \
                                and x.a[1][1].val == 0:
                            ok_count = True
            nv = s.d['args'][1] if len(s.d['args']) > 1 else None
            dec = nv is not None and nv.k == 'tuple' and len(nv.a[0]) == 2 and nv.a[0][1].k == 'term' and \
                nv.a[0][1].a[0] == 'Sub' and nv.a[0][1].a[1][0] == count_v and nv.a[0][1].a[1][1].is_const and \
                nv.a[0][1].a[1][1].val == 1
            if not (ok_owner and ok_count and dec):
                ok, wit = False, fmt_trace(p.trace)
    obs.append(Ob('O2', 'RLock.release/owned-then-decrement', ok and n > 0,
                  'release writes without having asserted that this thread owns the lock with count > 0, or does not '
                  'store count - 1: releasing what is not held must be refused', f.loc(), wit))
    f = ctx.func('recipes.Lock.locked')
    ok = False
    for p in ctx.paths(f, 'plain'):
        ok = any(e.kind == 'CALL' and e.d['name'] == '__contains__' for e in p.trace)
    obs.append(Ob('O2', 'Lock.locked/membership', ok, 'locked() is not a membership test of the lock key', f.loc()))
    return obs


@rule('O3', floor=7, title='context-manager forms call acquire/release; barrier runs the function inside the lock')
def o3(ctx):
    obs = []
    for cls in ('Lock', 'RLock', 'BoundedSemaphore'):
        for m, callee in (('__enter__', 'acquire'), ('__exit__', 'release')):
            f = ctx.func('recipes.%s.%s' % (cls, m))
            ok = False
            for p in ctx.paths(f, 'plain'):
                calls = [e for e in p.trace if real_call(e)]
                ok = len(calls) == 1 and calls[0].d['name'] == callee and calls[0].d['recv'].k == 'self'
            obs.append(Ob('O3', '%s.%s' % (cls, m), ok, '%s.%s does not call self.%s() exactly once' % (cls, m, callee),
                          f.loc()))
    # no __exit__ of the package returns a value that can be true: a truthy __exit__ swallows the exception that
    # left the with-block
    for g in ctx.prog.all_funcs():
        if g.name != '__exit__' or g.cls is None:
            continue
        bad = None
        for p in ctx.paths(g, 'plain'):
            if p.kind == 'return':
                rv = p.outcome[1]
                if not (rv.is_const and not rv.val):
                    bad = p
        obs.append(Ob('O3', '%s.__exit__/returns-falsy' % g.cls, bad is None,
                      '%s.__exit__ can return a true value (%r): an exception raised inside the with-block (or inside a '
                      'function decorated with barrier) is silently swallowed' %
                      (g.cls, bad.outcome[1] if bad is not None else None), g.loc(),
                      fmt_trace(bad.trace) if bad is not None else None))
    f = ctx.func('recipes.barrier.<locals>.decorator.<locals>.wrapper')
    # the variable of the decorator that holds the lock object made by lock_factory(...)
    lock_names = set()
    for p in ctx.paths(ctx.func('recipes.barrier.<locals>.decorator'), 'plain'):
        for e in p.trace:
            if e.kind == 'UCALL' and e.d['callee'].k == 'free' and e.d['callee'].a[0] == 'lock_factory':
                lock_names |= {k for k, v in p.st.env.items() if v == V('ucall', e.seq)}
    ok, n = True, 0
    for p in ctx.paths(f, 'plain'):
        users = [e for e in p.trace if e.kind == 'UCALL' and e.d['callee'].k == 'free' and e.d['callee'].a[0] == 'func']
        for u in users:
            n += 1
            enters = [e for e in p.trace[:u.seq] if e.kind == 'WITH_ENTER' and e.d['ctx'].k == 'free'
                      and e.d['ctx'].a[0] in lock_names]
            exits = [e for e in p.trace[:u.seq] if e.kind == 'WITH_EXIT']
            if not enters or exits:
                ok = False
    obs.append(Ob('O3', 'barrier.wrapper/call-inside-lock', ok and n > 0, 'barrier does not call the function inside '
                  '`with lock`', f.loc()))
    d = ctx.func('recipes.barrier.<locals>.decorator')
    ok = False
    for p in ctx.paths(d, 'plain'):
        for e in p.trace:
            if e.kind == 'UCALL' and e.d['callee'].k == 'free' and e.d['callee'].a[0] == 'lock_factory':
                a = e.d['args']
                kw = e.d['kwargs']
                # (cache, key) positionally, expire and tag by keyword: the factories differ in their third positional
                # parameter (BoundedSemaphore takes `value` there)
                ok = len(a) == 2 and a[0].k == 'free' and a[0].a[0] == 'cache' and \
                    set(kw) == {'expire', 'tag'} and all(kw[k].k == 'free' and kw[k].a[0] == k for k in kw)
    obs.append(Ob('O3', 'barrier.decorator/one-lock-per-function', ok, 'the lock is not created once per decorated '
                  'function from lock_factory(cache, key, ...)', d.loc()))
    return obs


RATE_NAMES = set()      # closure variables of throttle() that hold count / seconds (filled by o4)


def _rate_names(ctx):
    """Local names of recipes.throttle assigned `count / seconds` (possibly through float())."""
    out = set()
    f = ctx.func('recipes.throttle')
    for n in ast.walk(f.node):
        if isinstance(n, ast.Assign) and len(n.targets) == 1 and isinstance(n.targets[0], ast.Name) \
                and isinstance(n.value, ast.BinOp) and isinstance(n.value.op, ast.Div):
            names = {m.id for m in ast.walk(n.value) if isinstance(m, ast.Name)}
            left = {m.id for m in ast.walk(n.value.left) if isinstance(m, ast.Name)}
            right = {m.id for m in ast.walk(n.value.right) if isinstance(m, ast.Name)}
            if 'count' in left and 'seconds' in right and names <= {'count', 'seconds', 'float'}:
                out.add(n.targets[0].id)
    return out


def _is_refill(v, gv):
    """tokens + (now - last) * rate, modulo commutativity; returns (now value) or None."""
    if not (v.k == 'term' and v.a[0] == 'Add' and len(v.a[1]) == 2):
        return None
    tally = V('field', gv, 1)
    last = V('field', gv, 0)
    for x, y in (v.a[1], v.a[1][::-1]):
        if x != tally:
            continue
        if not (y.k == 'term' and y.a[0] == 'Mult' and len(y.a[1]) == 2):
            continue
        for m, r in (y.a[1], y.a[1][::-1]):
            if r.k in ('free', 'term') and (r.k != 'free' or r.a[0] in RATE_NAMES):
                if m.k == 'term' and m.a[0] == 'Sub' and m.a[1][1] == last and m.a[1][0].k == 'ucall':
                    return m.a[1][0]
    return None


def _find_refill(trace, gv):
    for e in trace:
        vals = []
        if e.kind == 'TEST':
            vals = values_in(e.d['val'])
        elif e.kind in ('CALL', 'UCALL'):
            vals = [x for a in e.d['args'] for x in values_in(a)]
        for x in vals:
            now = _is_refill(x, gv)
            if now is not None:
                return x, now
    return None, None


@rule('O4', floor=5, title='throttle: refill by elapsed*rate, cap at count, spend exactly one token inside the block or wait outside it')
def o4(ctx):
    f = ctx.func('recipes.throttle.<locals>.decorator.<locals>.wrapper')
    RATE_NAMES.clear()
    RATE_NAMES.update(_rate_names(ctx))
    if not RATE_NAMES:
        raise AnalysisError('O4: throttle() computes no count / seconds rate')
    res = {'refill': [True, None], 'spend-or-wait': [True, None], 'cap': [True, None], 'wait-outside': [True, None],
           'proceed-iff-spent': [True, None]}
    n_spend = n_wait = n_cap = 0

    def fail(k, p):
        res[k] = [False, fmt_trace(p.trace)]
    count = None
    for p in ctx.paths(f, 'default'):
        tr = p.trace
        blocks = [e for e in tr if e.kind == 'TXN_ENTER']
        if not blocks:
            continue
        # analyse the first loop iteration: events of transaction instance 1 and what follows until the next block
        inst = blocks[0].d['inst']
        end = blocks[1].seq if len(blocks) > 1 else len(tr)
        seg = tr[blocks[0].seq:end]
        gets = [e for e in seg if real_call(e) and e.d['targets'][0].name == 'get']
        sets = [e for e in seg if real_call(e) and e.d['targets'][0].name in ('set', '__setitem__')]
        if len(gets) != 1 or not gets[0].txn:
            fail('spend-or-wait', p)
            continue
        gv = V('ret', gets[0].seq, tuple(sorted(t.qual for t in gets[0].d['targets'])))
        refilled, nowv = _find_refill(seg, gv)
        if refilled is None:
            fail('refill', p)
            continue
        clock = tr[nowv.a[0]]
        if not (clock.d['callee'].k == 'free' and clock.d['callee'].a[0] == 'time_func' and clock.txn):
            fail('refill', p)
        # thresholds established on this path
        ge1 = gtcount = None
        for e in seg:
            if e.kind != 'TEST':
                continue
            c1 = _cmp_sets(e, lambda x: x == refilled, lambda x: x.is_const and x.val == 1)
            if c1 is not None:
                ge1 = c1          # orderings of refilled vs 1 consistent with this path
            cc = _cmp_sets(e, lambda x: x == refilled, lambda x: x.k == 'free' and x.a[0] == 'count')
            if cc is not None:
                gtcount = cc
        sleeps = [e for e in seg if e.kind == 'UCALL' and e.d['callee'].k == 'free' and e.d['callee'].a[0] == 'sleep_func']
        users = [e for e in tr[blocks[0].seq:] if e.kind == 'UCALL' and e.d['callee'].k == 'free' and e.d['callee'].a[0] == 'func']
        if sets:
            if len(sets) != 1 or not sets[0].txn or sets[0].txn[0] != inst:
                fail('spend-or-wait', p)
                continue
            val = sets[0].d['args'][1] if len(sets[0].d['args']) > 1 else None
            if not (val is not None and val.k == 'tuple' and len(val.a[0]) == 2 and val.a[0][0] == nowv):
                fail('spend-or-wait', p)
                continue
            stored = val.a[0][1]
            cap_form = stored.k == 'term' and stored.a[0] == 'Sub' and stored.a[1][0].k == 'free' and \
                stored.a[1][0].a[0] == 'count' and stored.a[1][1].is_const and stored.a[1][1].val == 1
            spend_form = stored.k == 'term' and stored.a[0] == 'Sub' and stored.a[1][0] == refilled and \
                stored.a[1][1].is_const and stored.a[1][1].val == 1
            if cap_form:
                n_cap += 1
                if gtcount is None or not gtcount <= {'>', '='} or '>' not in gtcount:
                    fail('cap', p)
            elif spend_form:
                n_spend += 1
                if ge1 is None or '<' in ge1:
                    fail('spend-or-wait', p)       # a call is let through with less than one token
                if gtcount is None or '>' in gtcount:
                    fail('cap', p)                # the bucket may hold more than `count` tokens
            else:
                fail('spend-or-wait', p)
            if sleeps:
                fail('proceed-iff-spent', p)
            if len(blocks) > 1 or (p.kind == 'return' and len(users) != 1):
                fail('proceed-iff-spent', p)
        else:
            # the computed delay (1 - tokens) / rate is positive whenever tokens < 1: a path that assumes it falsy is
            # arithmetically infeasible and is not judged (the truthiness of a computed float is not static)
            infeasible = any(e.kind == 'TEST' and not e.d['truth'] and e.d['val'].k == 'term' and e.d['val'].a[0] == 'Div'
                             and refilled in values_in(e.d['val']) for e in seg)
            if infeasible:
                continue
            n_wait += 1
            if ge1 is None or ge1 - {'<'}:
                fail('spend-or-wait', p)           # waits although a token is available
            if len(sleeps) != 1 or sleeps[0].txn:
                fail('wait-outside', p)
            else:
                d = sleeps[0].d['args'][0] if sleeps[0].d['args'] else None
                okd = d is not None and d.k == 'term' and d.a[0] == 'Div' and d.a[1][0].k == 'term' and \
                    d.a[1][0].a[0] == 'Sub' and d.a[1][0].a[1][0].is_const and d.a[1][0].a[1][0].val == 1 and \
                    d.a[1][0].a[1][1] == refilled
                if not okd:
                    fail('wait-outside', p)
            if users and len(blocks) == 1:
                fail('proceed-iff-spent', p)        # the function runs without a token having been spent
    msgs = {
        'refill': 'the bucket is not refilled as tokens + (time_func() - last) * rate read inside the block',
        'spend-or-wait': 'a branch neither stores (now, tokens - 1) with at least one token available nor waits with '
                         'less than one token',
        'cap': 'the bucket is not capped at `count` tokens: after an idle period an unbounded burst is let through',
        'wait-outside': 'the wait is not sleep_func((1 - tokens) / rate) outside the transaction block',
        'proceed-iff-spent': 'the throttled function starts without a token having been spent in that iteration (or '
                             'waits although it spent one)',
    }
    obs = []
    for k, (ok, wit) in res.items():
        obs.append(Ob('O4', 'throttle/' + k, ok and n_spend > 0 and n_wait > 0 and n_cap > 0, msgs[k], f.loc(), wit))
    return obs


@rule('O5', floor=8, title='recipe classes pass their expire/tag to every write of their key and retry=True to every cache operation')
def o5(ctx):
    """Sibling agreement inside each recipe: acquire and release (add and pop ...) store the key with the same
    expire/tag the object was created with, and no operation of a recipe may time out (retry=True)."""
    obs = []
    for cname in ('Averager', 'Lock', 'RLock', 'BoundedSemaphore'):
        ci = ctx.prog.classes[cname]
        for mname, f in sorted(ci.methods.items()):
            if mname in ('__init__',) or (mname.startswith('_') and not mname.startswith('__')):
                continue        # private helpers are judged inlined into the public methods
            okw, okr, n = True, True, 0
            for p in ctx.paths(f, 'plain'):
                for e in p.trace:
                    if e.kind == 'TXN_ENTER' and e.d.get('tkind') == 'delegate' or \
                            (e.kind == 'CALL' and e.d['name'] == 'transact'):
                        r = e.d.get('retry') if e.kind == 'TXN_ENTER' else e.d['kwargs'].get('retry')
                        n += 1
                        if not (r is not None and r.is_const and r.val is True):
                            okr = False
                    if e.kind != 'CALL' or e.d.get('inlined') or not all(t.cls in ('Cache', 'FanoutCache') for t in e.d['targets']):
                        continue
                    t = e.d['targets'][0]
                    if e.d['recv'] is None or e.d['recv'].k != 'selfattr':
                        continue
                    n += 1
                    if t.name in ('set', 'add'):
                        for kw, attr in (('expire', '_expire'), ('tag', '_tag')):
                            v = e.d['kwargs'].get(kw)
                            if v is None and kw in t.params:
                                i = t.params.index(kw)
                                v = e.d['args'][i] if i < len(e.d['args']) else None
                            if not (v is not None and v.k == 'selfattr' and v.a[1] == attr):
                                okw = False
                    if 'retry' in t.params and not e.txn:
                        r = e.d['kwargs'].get('retry')
                        if not (r is not None and r.is_const and r.val is True):
                            okr = False
            if n == 0:
                continue
            obs.append(Ob('O5', '%s.%s/expire-and-tag' % (cname, mname), okw,
                          '%s.%s writes the key without the expire/tag of the object: the entry written by this method '
                          'is not covered by evict(tag) / expires differently from the one its sibling wrote' %
                          (cname, mname), f.loc()))
            obs.append(Ob('O5', '%s.%s/retry' % (cname, mname), okr,
                          '%s.%s performs a cache operation outside a transaction block without retry=True (or enters '
                          'its block without it): the recipe can raise Timeout under contention' % (cname, mname),
                          f.loc()))
    # decorator recipes: operations on the `cache` argument
    for f in ctx.prog.all_funcs():
        if f.module != 'recipes' or f.cls is not None:
            continue
        root = f
        while root.parent is not None:
            root = root.parent
        if root.name not in ('throttle', 'barrier', 'memoize_stampede'):
            continue
        okr, n = True, 0
        for p in ctx.paths(f, 'plain'):
            for e in p.trace:
                if e.kind == 'CALL' and not e.d.get('inlined') and e.fn is f and \
                        all(t.cls in ('Cache', 'FanoutCache') for t in e.d['targets']):
                    t = e.d['targets'][0]
                    if 'retry' in t.params and not e.txn and t.name not in ('transact',):
                        n += 1
                        r = e.d['kwargs'].get('retry')
                        if not (r is not None and r.is_const and r.val is True):
                            okr = False
                if e.kind == 'TXN_ENTER' and e.fn is f:
                    n += 1
                    r = e.d.get('retry')
                    if not (r is not None and r.is_const and r.val is True):
                        okr = False
        if n:
            obs.append(Ob('O5', '%s/retry' % f.qual.replace('recipes.', ''), okr,
                          '%s performs a cache operation without retry=True: the recipe can raise Timeout under '
                          'contention' % f.qual, f.loc()))
    return obs


@rule('O6', floor=2, title='Averager.get/pop: None exactly when no value was added, otherwise total / count of the stored pair')
def o6(ctx):
    obs = []
    for m in ('get', 'pop'):
        f = ctx.func('recipes.Averager.' + m)
        ok, n, wit = True, 0, None
        for p in ctx.paths(f, 'plain'):
            if p.kind != 'return':
                continue
            n += 1
            rv = p.outcome[1]
            calls = [e for e in p.trace if e.kind == 'CALL' and e.d['name'] == m and not e.d.get('inlined')]
            if len(calls) != 1:
                ok, wit = False, fmt_trace(p.trace)
                continue
            pair = V('ret', calls[0].seq, tuple(sorted(t.qual for t in calls[0].d['targets'])))
            total, count = V('field', pair, 0), V('field', pair, 1)
            # a missing key stands for "nothing added": the default pair is (0, 0)
            dflt = calls[0].d['kwargs'].get('default')
            if dflt is None and len(calls[0].d['args']) > 1:
                dflt = calls[0].d['args'][1]
            dv = None
            if dflt is not None and dflt.is_const and isinstance(dflt.val, tuple):
                dv = list(dflt.val)
            elif dflt is not None and dflt.k == 'tuple' and all(x.is_const for x in dflt.a[0]):
                dv = [x.val for x in dflt.a[0]]
            if not (dv is not None and len(dv) == 2 and dv[0] == 0 and dv[1] == 0):
                ok, wit = False, fmt_trace(p.trace)
            # which orderings of count versus 0 are consistent with the branch decisions of this path
            zero = None
            for e in p.trace:
                if e.kind == 'TEST' and e.d['val'].k == 'cmp' and len(e.d['val'].a[0]) == 1:
                    a, b = e.d['val'].a[1]
                    op = e.d['val'].a[0][0]
                    if a == count and b.is_const and b.val == 0 and op in ('Eq', 'NotEq', 'Gt', 'LtE'):
                        is_zero = {'Eq': True, 'NotEq': False, 'Gt': False, 'LtE': True}[op]
                        zero = is_zero if e.d['truth'] else not is_zero
                elif e.kind == 'TEST' and e.d['val'] == count:
                    zero = not e.d['truth']
                elif e.kind == 'TEST' and e.d['val'].k == 'not' and e.d['val'].a[0] == count:
                    zero = e.d['truth']
            if rv.is_const and rv.val is None:
                good = zero is True
            else:
                good = zero is False and rv.k == 'term' and rv.a[0] in ('Div', 'TrueDiv') and tuple(rv.a[1]) == (total, count)
            if not good:
                ok, wit = False, fmt_trace(p.trace)
        obs.append(Ob('O6', 'Averager.%s/none-iff-empty' % m, ok and n >= 2,
                      'Averager.%s does not return None exactly when the stored count is 0 and total / count '
                      'otherwise' % m, f.loc(), wit))
    return obs
