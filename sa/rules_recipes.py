"""L3 and O rules: recipes and persistent containers built on atomic primitives."""
import ast

from .framework import rule, Ob, fmt_trace, values_in
from .model import AnalysisError, walk_shallow, dotted
from .values import V

CACHE_DATA = {'get', 'set', 'add', 'pop', 'delete', 'incr', 'decr', 'touch', 'push', 'pull', 'peek', 'peekitem',
              '__getitem__', '__setitem__', '__delitem__', '__len__', 'popleft', 'pop', 'append', 'appendleft'}

# functions whose read-modify-write must sit in one `with <cache>.transact(retry=True)` block
L3_BLOCKS = [
    ('recipes.Averager.add', ('get', 'set')),
    ('recipes.RLock.acquire', ('get', 'set')),
    ('recipes.RLock.release', ('get', 'set')),
    ('recipes.BoundedSemaphore.acquire', ('get', 'set')),
    ('recipes.BoundedSemaphore.release', ('get', 'set')),
    ('recipes.throttle.<locals>.decorator.<locals>.wrapper', ('get', 'set')),
    ('persistent.Deque.append', ('push', '__len__', 'popleft')),
    ('persistent.Deque.appendleft', ('push', '__len__', 'pop')),
    ('persistent.Deque.maxlen@setter', ('__len__', 'popleft')),
    ('persistent.Index.popitem', ('peekitem', '__delitem__')),
]


def _data_calls(trace, fn):
    return [e for e in trace if e.kind == 'CALL' and e.fn is fn and e.d['targets'][0].name in CACHE_DATA
            and any(t.cls in ('Cache', 'FanoutCache', 'Deque') for t in e.d['targets'])]


@rule('L3', floor=14, title='recipes/containers: each read-modify-write sits in one retrying transaction block, or uses one atomic primitive')
def l3(ctx):
    obs = []
    for qual, ops in L3_BLOCKS:
        f = ctx.func(qual)
        ok, why, wit = True, '', None
        n = 0
        seen_ops = set()
        for p in ctx.paths(f, 'default'):
            if p.kind == 'cut':
                continue
            calls = _data_calls(p.trace, f)
            if not calls:
                continue
            n += 1
            insts = set()
            for c in calls:
                seen_ops.add(c.d['targets'][0].name)
                if not c.txn:
                    ok, why, wit = False, '%s is called outside the transaction block' % c.d['targets'][0].name, fmt_trace(p.trace)
                else:
                    insts.add(c.txn[0])
            if len(insts) > 1:
                # several blocks on one path are fine only in spin loops where each iteration is complete in itself
                for inst in insts:
                    names = {c.d['targets'][0].name for c in calls if c.txn and c.txn[0] == inst}
                    writes = names & {'set', 'push', 'pop', 'popleft', '__delitem__', 'delete', 'add'}
                    reads = names & {'get', '__len__', 'peekitem'}
                    if writes and not reads:
                        ok, why, wit = False, 'a write runs in a different block than the read it depends on', fmt_trace(p.trace)
            enters = [e for e in p.trace if e.kind == 'TXN_ENTER' and e.fn is f]
            for e in enters:
                r = e.d['retry']
                if not (r.is_const and r.val is True):
                    ok, why, wit = False, 'the block is entered with retry=%r: it can raise Timeout' % (r,), fmt_trace(p.trace)
        missing = [o for o in ops if o not in seen_ops]
        if missing and ok:
            ok, why = False, 'expected operations %s not found (read/modify/write shape changed)' % missing
        obs.append(Ob('L3', qual.replace('recipes.', '').replace('persistent.', '').replace(
            '.<locals>.decorator.<locals>.wrapper', '.wrapper') + '/one-block', ok and n > 0,
            why or 'no cache operation found', f.loc(), wit))
    # Lock.acquire: leaves the loop only on a true result of add(..., retry=True)
    f = ctx.func('recipes.Lock.acquire')
    ok, why, wit = True, '', None
    n = 0
    for p in ctx.paths(f, 'default'):
        if p.kind == 'cut':
            continue
        calls = [e for e in p.trace if e.kind == 'CALL' and e.fn is f]
        if p.kind in ('return', 'next'):
            n += 1
            adds = [e for e in calls if e.d['name'] == 'add']
            if not adds or any(e.d['name'] in ('set', '__setitem__') for e in calls):
                ok, why, wit = False, 'the lock is taken with something other than the atomic add', fmt_trace(p.trace)
                continue
            last = adds[-1]
            r = last.d['kwargs'].get('retry')
            if not (r is not None and r.is_const and r.val is True):
                ok, why, wit = False, 'add is called without retry=True', fmt_trace(p.trace)
            rv = V('ret', last.seq, tuple(sorted(t.qual for t in last.d['targets'])))
            tests = [e for e in p.trace[last.seq:] if e.kind == 'TEST' and e.d['val'] == rv]
            if not tests or not tests[-1].d['truth']:
                ok, why, wit = False, 'the loop is left although add did not report success', fmt_trace(p.trace)
            kv = last.d['args'][0] if last.d['args'] else None
            if not (kv is not None and kv.k == 'selfattr' and kv.a[1] == '_key'):
                ok, why, wit = False, 'the lock key is not self._key', fmt_trace(p.trace)
    obs.append(Ob('L3', 'Lock.acquire/atomic-add-decides', ok and n > 0, why, f.loc(), wit))
    f = ctx.func('recipes.Lock.release')
    ok = False
    for p in ctx.paths(f, 'plain'):
        for e in p.trace:
            if e.kind == 'CALL' and e.d['name'] in ('delete', '__delitem__', 'pop') and e.d['args'] and \
                    e.d['args'][0].k == 'selfattr' and e.d['args'][0].a[1] == '_key':
                ok = True
    obs.append(Ob('L3', 'Lock.release/deletes-key', ok, 'release does not delete the lock key', f.loc()))
    # Index.setdefault: writes with add, returns what a lookup returns
    f = ctx.func('persistent.Index.setdefault')
    ok = True
    n = 0
    for p in ctx.paths(f, 'default'):
        writes = [e for e in p.trace if e.kind == 'CALL' and e.fn is f and e.d['name'] in ('set', '__setitem__', 'add')]
        for w in writes:
            n += 1
            if w.d['name'] != 'add':
                ok = False
        if p.kind == 'return':
            rv = p.outcome[1]
            if not (rv.k == 'ret' and any(q.endswith('__getitem__') for q in rv.a[1])):
                ok = False
    obs.append(Ob('L3', 'Index.setdefault/atomic-add', ok and n > 0, 'setdefault stores the default with something other '
                  'than the atomic add (or returns something other than the stored value): two clients could both '
                  'believe their default was stored', f.loc()))
    # Deque.rotate: each step pops one end and re-inserts THAT value at the other end
    f = ctx.func('persistent.Deque.rotate')
    ok, n, wit = True, 0, None
    pairs = {('pop', 'appendleft'), ('popleft', 'append')}
    for p in ctx.paths(f, 'default'):
        if p.kind == 'cut':
            continue
        calls = [e for e in p.trace if e.kind == 'CALL' and e.fn is f and e.d['targets'][0].cls == 'Deque']
        for i, e in enumerate(calls):
            tn = e.d['targets'][0].name
            if tn in ('append', 'appendleft'):
                n += 1
                a = e.d['args'][0] if e.d['args'] else None
                prev = [c for c in calls[:i] if c.d['targets'][0].name in ('pop', 'popleft')]
                good = False
                if a is not None and a.k == 'ret' and prev and a.a[0] == prev[-1].seq and \
                        (prev[-1].d['targets'][0].name, tn) in pairs:
                    good = True
                if not good:
                    ok, wit = False, fmt_trace(p.trace)
    obs.append(Ob('L3', 'Deque.rotate/pop-then-reinsert', ok and n > 0,
                  'a rotation step does not re-insert exactly the value it has just popped from the opposite end '
                  '(inserting before popping lets the maxlen trim of append discard an element)', f.loc(), wit))
    # Index.__eq__ / __ne__: absence is detected with the ENOVAL sentinel, never with a None default
    bad = []
    for mname in ('__eq__', '__ne__'):
        m = ctx.prog.classes['Index'].methods.get(mname)
        if m is None:
            continue
        for nnode in ast.walk(m.node):
            if isinstance(nnode, ast.Call) and isinstance(nnode.func, ast.Attribute) and nnode.func.attr == 'get':
                dflt = nnode.args[1] if len(nnode.args) > 1 else None
                for k in nnode.keywords:
                    if k.arg == 'default':
                        dflt = k.value
                if not (isinstance(dflt, ast.Name) and dflt.id == 'ENOVAL'):
                    bad.append(nnode)
            if isinstance(nnode, ast.comprehension) and ast.unparse(nnode.iter) == 'other':
                # iterating only the other mapping's keys cannot notice keys that only the index has
                src = ast.unparse(m.node)
                if 'isinstance(other, (Index, OrderedDict))' in src and 'for key in self' not in src.split('else:')[-1]:
                    bad.append(nnode)
    meq = ctx.prog.classes['Index'].methods.get('__eq__')
    obs.append(Ob('L3', 'Index.__eq__/sentinel-lookup', not bad and meq is not None,
                  'Index equality looks values up with a None default (or never iterates its own keys): a key missing '
                  'on one side compares equal to a None value on the other', meq.loc(bad[0]) if bad and meq else ''))
    # Averager.pop is a single atomic pop
    f = ctx.func('recipes.Averager.pop')
    ok = False
    for p in ctx.paths(f, 'plain'):
        calls = [e for e in p.trace if e.kind == 'CALL' and e.fn is f]
        ok = len(calls) == 1 and calls[0].d['name'] == 'pop'
    obs.append(Ob('L3', 'Averager.pop/single-pop', ok, 'Averager.pop is not one atomic pop: adds between the read and the '
                  'delete would be lost', f.loc()))
    return obs


# ---------------------------------------------------------------------- O rules
def _cmp_sets(ev, var_pred, other_pred):
    """Orderings (var ? other) under which the tested atom has the assumed truth."""
    v = ev.d['val']
    neg = False
    while v.k == 'not':
        v = v.a[0]
        neg = not neg
    if v.k != 'cmp' or len(v.a[0]) != 1 or v.a[0][0] not in ('Lt', 'LtE', 'Gt', 'GtE', 'Eq', 'NotEq'):
        return None
    a, b = v.a[1]
    if var_pred(a) and other_pred(b):
        flip = False
    elif var_pred(b) and other_pred(a):
        flip = True
    else:
        return None
    op = v.a[0][0]
    truth = ev.d['truth'] != neg
    out = set()
    for c, d in (('<', -1), ('=', 0), ('>', 1)):
        d2 = -d if flip else d
        r = {'Lt': d2 < 0, 'LtE': d2 <= 0, 'Gt': d2 > 0, 'GtE': d2 >= 0, 'Eq': d2 == 0, 'NotEq': d2 != 0}[op]
        if r == truth:
            out.add(c)
    return out


@rule('O0', floor=3, title='BoundedSemaphore: acquire only while value > 0, release only while value < initial, by one')
def o0(ctx):
    obs = []
    f = ctx.func('recipes.BoundedSemaphore.acquire')
    ok, wit, n = True, None, 0
    for p in ctx.paths(f, 'default'):
        sets = [e for e in p.trace if e.kind == 'CALL' and e.fn is f and e.d['name'] == 'set']
        for s in sets:
            n += 1
            gets = [e for e in p.trace[:s.seq] if e.kind == 'CALL' and e.fn is f and e.d['name'] == 'get']
            if not gets:
                ok, wit = False, fmt_trace(p.trace)
                continue
            gv = V('ret', gets[-1].seq, tuple(sorted(t.qual for t in gets[-1].d['targets'])))
            allowed = None
            for e in p.trace[gets[-1].seq:s.seq]:
                if e.kind == 'TEST':
                    c = _cmp_sets(e, lambda x: x == gv, lambda x: x.is_const and x.val == 0)
                    if c is not None:
                        allowed = c if allowed is None else (allowed & c)
            nv = s.d['args'][1] if len(s.d['args']) > 1 else None
            dec = nv is not None and nv.k == 'term' and nv.a[0] == 'Sub' and nv.a[1][0] == gv and \
                nv.a[1][1].is_const and nv.a[1][1].val == 1
            dflt = gets[-1].d['kwargs'].get('default')
            if allowed != {'>'} or not dec or not (dflt is not None and dflt.k == 'selfattr' and dflt.a[1] == '_value'):
                ok, wit = False, fmt_trace(p.trace)
    obs.append(Ob('O0', 'BoundedSemaphore.acquire/positive-then-decrement', ok and n > 0,
                  'acquire proceeds when the remaining permits are not > 0, or does not store value - 1 (missing key = '
                  'initial value): more than `value` holders could be inside', f.loc(), wit))
    f = ctx.func('recipes.BoundedSemaphore.release')
    ok, wit, n = True, None, 0
    for p in ctx.paths(f, 'default'):
        sets = [e for e in p.trace if e.kind == 'CALL' and e.fn is f and e.d['name'] == 'set']
        for s in sets:
            n += 1
            gets = [e for e in p.trace[:s.seq] if e.kind == 'CALL' and e.fn is f and e.d['name'] == 'get']
            gv = V('ret', gets[-1].seq, tuple(sorted(t.qual for t in gets[-1].d['targets']))) if gets else None
            allowed = None
            for e in p.trace[:s.seq]:
                if e.kind == 'TEST' and gv is not None:
                    c = _cmp_sets(e, lambda x: x == gv, lambda x: x.k == 'selfattr' and x.a[1] == '_value')
                    if c is not None:
                        allowed = c if allowed is None else (allowed & c)
            nv = s.d['args'][1] if len(s.d['args']) > 1 else None
            inc = nv is not None and nv.k == 'term' and nv.a[0] == 'Add' and gv in nv.a[1] and \
                any(x.is_const and x.val == 1 for x in nv.a[1])
            if allowed != {'<'} or not inc:
                ok, wit = False, fmt_trace(p.trace)
    obs.append(Ob('O0', 'BoundedSemaphore.release/below-initial-then-increment', ok and n > 0,
                  'release does not refuse when value >= initial, or does not store value + 1', f.loc(), wit))
    f = ctx.func('recipes.BoundedSemaphore.__init__')
    d = f.defaults.get('value')
    obs.append(Ob('O0', 'BoundedSemaphore.__init__/default-one', isinstance(d, ast.Constant) and d.value == 1,
                  'default permit count is not 1', f.loc()))
    return obs


@rule('O1', floor=2, title='RLock owner identity combines process id and thread id, identically in acquire and release')
def o1(ctx):
    obs = []
    shapes = {}
    for name in ('acquire', 'release'):
        f = ctx.func('recipes.RLock.' + name)
        ok = False
        shape = None
        for p in ctx.paths(f, 'default'):
            for e in p.trace:
                if e.kind == 'CALL' and e.fn is f and e.d['name'] == 'set' and len(e.d['args']) > 1:
                    v = e.d['args'][1]
                    owner = v.a[0][0] if v.k == 'tuple' and v.a[0] else None
                    if owner is None:
                        continue
                    vs = values_in(owner)
                    # in release the stored owner is the value read back; look at the identity compared with it
            ids = [e for e in p.trace if e.kind == 'TEST' and e.d['val'].k == 'cmp' and e.d['val'].a[0] == ('Eq',)]
            for t in ids:
                for x in t.d['val'].a[1]:
                    if x.k == 'str' or x.is_const:
                        deps = [y for y in values_in(x) if y.k == 'ext']
                        names = sorted({y.a[0] for y in deps})
                        if names:
                            import re as _re
                            shape = (_re.sub(r'⟦[^⟧]*⟧', '⟦⟧', x.a[0] if x.k == 'str' else str(x.val)), tuple(names))
            if shape and set(shape[1]) >= {'os.getpid', 'threading.get_ident'}:
                ok = True
        shapes[name] = shape
        obs.append(Ob('O1', 'RLock.%s/pid-and-tid' % name, ok,
                      'the owner identity compared in RLock.%s does not contain both os.getpid() and '
                      'threading.get_ident(): another thread or process would pass for the owner' % name, f.loc()))
    obs.append(Ob('O1', 'RLock/same-identity-format', shapes.get('acquire') == shapes.get('release') and
                  shapes.get('acquire') is not None, 'acquire and release build the owner identity differently: %s'
                  % shapes, ctx.func('recipes.RLock.acquire').loc()))
    return obs


@rule('O2', floor=3, title='RLock: re-acquire only by the owner or when free; release only by the owner with count > 0, by one')
def o2(ctx):
    obs = []
    f = ctx.func('recipes.RLock.acquire')
    ok, wit, n = True, None, 0
    for p in ctx.paths(f, 'default'):
        sets = [e for e in p.trace if e.kind == 'CALL' and e.fn is f and e.d['name'] == 'set']
        for s in sets:
            n += 1
            gets = [e for e in p.trace[:s.seq] if e.kind == 'CALL' and e.fn is f and e.d['name'] == 'get']
            if not gets:
                ok, wit = False, fmt_trace(p.trace)
                continue
            g = gets[-1]
            gv = V('ret', g.seq, tuple(sorted(t.qual for t in g.d['targets'])))
            owner_v, count_v = V('field', gv, 0), V('field', gv, 1)
            owner_eq = count_zero = None
            for e in p.trace[g.seq:s.seq]:
                if e.kind != 'TEST' or e.d['val'].k != 'cmp' or e.d['val'].a[0] != ('Eq',):
                    continue
                a, b = e.d['val'].a[1]
                if owner_v in (a, b):
                    owner_eq = e.d['truth']
                if count_v in (a, b) and any(x.is_const and x.val == 0 for x in (a, b)):
                    count_zero = e.d['truth']
            if not (owner_eq is True or count_zero is True):
                ok, wit = False, fmt_trace(p.trace)
            nv = s.d['args'][1] if len(s.d['args']) > 1 else None
            good = nv is not None and nv.k == 'tuple' and len(nv.a[0]) == 2 and nv.a[0][1].k == 'term' and \
                nv.a[0][1].a[0] == 'Add' and count_v in nv.a[0][1].a[1] and nv.a[0][0].k in ('str', 'const')
            if not good:
                ok, wit = False, fmt_trace(p.trace)
            d = g.d['kwargs'].get('default')
            if not (d is not None and ((d.is_const and d.val == (None, 0)) or
                                       (d.k == 'tuple' and d.a[0][1].is_const and d.a[0][1].val == 0))):
                ok, wit = False, fmt_trace(p.trace)
    obs.append(Ob('O2', 'RLock.acquire/owner-or-free', ok and n > 0,
                  'acquire writes (owner, count + 1) on a path where the stored owner is neither this thread nor the '
                  'count zero: two threads could hold the re-entrant lock', f.loc(), wit))
    f = ctx.func('recipes.RLock.release')
    ok, wit, n = True, None, 0
    for p in ctx.paths(f, 'default'):
        sets = [e for e in p.trace if e.kind == 'CALL' and e.fn is f and e.d['name'] == 'set']
        for s in sets:
            n += 1
            gets = [e for e in p.trace[:s.seq] if e.kind == 'CALL' and e.fn is f and e.d['name'] == 'get']
            g = gets[-1]
            gv = V('ret', g.seq, tuple(sorted(t.qual for t in g.d['targets'])))
            owner_v, count_v = V('field', gv, 0), V('field', gv, 1)
            # the assertion must have established owner == me and count > 0
            asserted = [e for e in p.trace[g.seq:s.seq] if e.kind == 'TEST' and e.d['truth']]
            ok_owner = ok_count = False
            for e in p.trace[g.seq:s.seq]:
                for x in values_in(e.d.get('val')) if e.kind == 'TEST' else []:
                    pass
            # the asserted value is the conjunction stored in a local: inspect its operands
            for e in p.trace[g.seq:s.seq]:
                if e.kind == 'TEST' and e.d['truth']:
                    for x in values_in(e.d['val']):
                        if x.k == 'cmp' and x.a[0] == ('Eq',) and owner_v in x.a[1]:
                            ok_owner = True
                        if x.k == 'cmp' and x.a[0] == ('Gt',) and x.a[1][0] == count_v and x.a[1][1].is_const \
                                and x.a[1][1].val == 0:
                            ok_count = True
            nv = s.d['args'][1] if len(s.d['args']) > 1 else None
            dec = nv is not None and nv.k == 'tuple' and len(nv.a[0]) == 2 and nv.a[0][1].k == 'term' and \
                nv.a[0][1].a[0] == 'Sub' and nv.a[0][1].a[1][0] == count_v and nv.a[0][1].a[1][1].is_const and \
                nv.a[0][1].a[1][1].val == 1
            if not (ok_owner and ok_count and dec):
                ok, wit = False, fmt_trace(p.trace)
    obs.append(Ob('O2', 'RLock.release/owned-then-decrement', ok and n > 0,
                  'release writes without having asserted that this thread owns the lock with count > 0, or does not '
                  'store count - 1: releasing what is not held must be refused', f.loc(), wit))
    f = ctx.func('recipes.Lock.locked')
    ok = False
    for p in ctx.paths(f, 'plain'):
        ok = any(e.kind == 'CALL' and e.d['name'] == '__contains__' for e in p.trace)
    obs.append(Ob('O2', 'Lock.locked/membership', ok, 'locked() is not a membership test of the lock key', f.loc()))
    return obs


@rule('O3', floor=7, title='context-manager forms call acquire/release; barrier runs the function inside the lock')
def o3(ctx):
    obs = []
    for cls in ('Lock', 'RLock', 'BoundedSemaphore'):
        for m, callee in (('__enter__', 'acquire'), ('__exit__', 'release')):
            f = ctx.func('recipes.%s.%s' % (cls, m))
            ok = False
            for p in ctx.paths(f, 'plain'):
                calls = [e for e in p.trace if e.kind == 'CALL' and e.fn is f]
                ok = len(calls) == 1 and calls[0].d['name'] == callee and calls[0].d['recv'].k == 'self'
            obs.append(Ob('O3', '%s.%s' % (cls, m), ok, '%s.%s does not call self.%s() exactly once' % (cls, m, callee),
                          f.loc()))
    f = ctx.func('recipes.barrier.<locals>.decorator.<locals>.wrapper')
    ok, n = True, 0
    for p in ctx.paths(f, 'plain'):
        users = [e for e in p.trace if e.kind == 'UCALL' and e.d['callee'].k == 'free' and e.d['callee'].a[0] == 'func']
        for u in users:
            n += 1
            enters = [e for e in p.trace[:u.seq] if e.kind == 'WITH_ENTER' and e.d['ctx'].k == 'free'
                      and e.d['ctx'].a[0] == 'lock']
            exits = [e for e in p.trace[:u.seq] if e.kind == 'WITH_EXIT']
            if not enters or exits:
                ok = False
    obs.append(Ob('O3', 'barrier.wrapper/call-inside-lock', ok and n > 0, 'barrier does not call the function inside '
                  '`with lock`', f.loc()))
    d = ctx.func('recipes.barrier.<locals>.decorator')
    ok = False
    for p in ctx.paths(d, 'plain'):
        for e in p.trace:
            if e.kind == 'UCALL' and e.d['callee'].k == 'free' and e.d['callee'].a[0] == 'lock_factory':
                a = e.d['args']
                ok = len(a) >= 2 and a[0].k == 'free' and a[0].a[0] == 'cache'
    obs.append(Ob('O3', 'barrier.decorator/one-lock-per-function', ok, 'the lock is not created once per decorated '
                  'function from lock_factory(cache, key, ...)', d.loc()))
    return obs


@rule('O4', floor=4, title='throttle: spend exactly one token inside the block or compute a delay and sleep outside it')
def o4(ctx):
    f = ctx.func('recipes.throttle.<locals>.decorator.<locals>.wrapper')
    node = f.node
    obs = []
    # locate the with-block and the branches inside it
    withs = [n for n in ast.walk(node) if isinstance(n, ast.With)]
    if len(withs) != 1:
        raise AnalysisError('O4: throttle wrapper no longer has exactly one transaction block')
    w = withs[0]
    ifs = [n for n in w.body if isinstance(n, ast.If)]
    ok = bool(ifs)
    why = ''
    delay0 = any(isinstance(n, ast.Assign) and ast.unparse(n.targets[0]) == 'delay' and isinstance(n.value, ast.Constant)
                 and n.value.value == 0 for n in w.body)
    branches = []

    def collect(ifn):
        branches.append(ifn.body)
        if len(ifn.orelse) == 1 and isinstance(ifn.orelse[0], ast.If):
            collect(ifn.orelse[0])
        else:
            branches.append(ifn.orelse)
    if ifs:
        collect(ifs[-1])
    spend = wait = 0
    for b in branches:
        sets = [n for s in b for n in ast.walk(s) if isinstance(n, ast.Call) and isinstance(n.func, ast.Attribute)
                and n.func.attr == 'set']
        delays = [s for s in b if isinstance(s, ast.Assign) and ast.unparse(s.targets[0]) == 'delay']
        if sets and not delays:
            spend += 1
            for c in sets:
                val = c.args[1] if len(c.args) > 1 else None
                if not (isinstance(val, ast.Tuple) and len(val.elts) == 2 and isinstance(val.elts[1], ast.BinOp)
                        and isinstance(val.elts[1].op, ast.Sub) and isinstance(val.elts[1].right, ast.Constant)
                        and val.elts[1].right.value == 1 and ast.unparse(val.elts[0]) == 'now'):
                    ok, why = False, 'a spending branch does not store (now, tokens - 1)'
        elif delays and not sets:
            wait += 1
            if isinstance(delays[0].value, ast.Constant):
                ok, why = False, 'the waiting branch assigns a constant delay'
        else:
            ok, why = False, 'a branch both spends a token and waits, or does neither'
    if not delay0:
        ok, why = False, 'delay is not reset to 0 before the branches'
    obs.append(Ob('O4', 'throttle/branch-shape', ok and spend >= 1 and wait == 1, why or 'branch shape not recognised',
                  f.loc(w)))
    # tokens are capped at count and refilled by elapsed * rate
    src = ast.unparse(w)
    obs.append(Ob('O4', 'throttle/refill', 'tally += (now - last) * rate' in src or 'tally = tally + (now - last) * rate' in src,
                  'the bucket is not refilled by elapsed time * rate', f.loc(w)))
    capped = any(isinstance(n, ast.If) and ast.unparse(n.test) in ('tally > count', 'count < tally', 'tally >= count')
                 for n in ast.walk(w))
    obs.append(Ob('O4', 'throttle/capped-at-count', capped, 'the bucket is not capped at `count` tokens: after an idle '
                  'period an unbounded burst would be let through', f.loc(w)))
    spend_guard = any(isinstance(n, ast.If) and ast.unparse(n.test) in ('tally >= 1', '1 <= tally') for n in ast.walk(w))
    obs.append(Ob('O4', 'throttle/spend-needs-one-token', spend_guard, 'a call is let through with less than one token',
                  f.loc(w)))
    # paths: the sleep is outside the block and the function is called after the loop
    okp = True
    n = 0
    for p in ctx.paths(f, 'default'):
        for e in p.trace:
            if e.kind == 'UCALL' and e.d['callee'].k == 'free' and e.d['callee'].a[0] == 'sleep_func':
                n += 1
                if e.txn:
                    okp = False
                if not (e.d['args'] and e.d['args'][0].k == 'term'):
                    okp = False
    obs.append(Ob('O4', 'throttle/sleep-outside-with-computed-delay', okp and n > 0,
                  'the wait is inside the transaction block or not the computed delay', f.loc()))
    # loop exit is controlled by delay alone
    loops = [n for n in ast.walk(node) if isinstance(n, ast.While)]
    ctl = False
    for lp in loops:
        for s in lp.body:
            if isinstance(s, ast.If) and ast.unparse(s.test) == 'delay':
                has_break = any(isinstance(x, ast.Break) for x in s.orelse)
                sleeps = any(isinstance(x, ast.Call) and ast.unparse(x.func) == 'sleep_func' for y in s.body for x in ast.walk(y))
                ctl = has_break and sleeps
            if isinstance(s, ast.If) and ast.unparse(s.test) in ('not delay', 'delay == 0'):
                ctl = any(isinstance(x, ast.Break) for x in s.body)
    obs.append(Ob('O4', 'throttle/loop-exit-on-zero-delay', ctl, 'the retry loop is not left exactly when no delay was '
                  'computed', f.loc()))
    return obs
