"""R rules: retry forwarding and Timeout containment."""
import ast

from .framework import rule, Ob, fmt_trace, sql_events, call_events, values_in
from .model import AnalysisError, walk_shallow, dotted
from .values import V


def _retry_arg(ev, target):
    """Value passed for the callee's `retry` parameter at a CALL event (None = defaulted)."""
    if 'retry' in ev.d['kwargs']:
        return ev.d['kwargs']['retry']
    params = target.params
    if 'retry' in params:
        i = params.index('retry')
        args = ev.d['args']
        if any(a.k == 'star' for a in args):
            return None
        if i < len(args):
            return args[i]
    return None


def _default_retry(target):
    d = target.defaults.get('retry')
    if isinstance(d, ast.Constant):
        return d.value
    return None


def _strong(v, caller_has_retry):
    """Is the retry value at least as strong as the caller's own retry?"""
    if v is None:
        return False
    if v.is_const and v.val is True:
        return True
    if v.k == 'param' and v.a[0] == 'retry':
        return True
    return False


@rule('R1', floor=40, title='retry is forwarded (or strengthened to True) to every transaction entry and every callee that takes it')
def r1(ctx):
    sites = {}
    for f in ctx.prog.all_funcs():
        if 'retry' not in f.params:
            continue
        for p in ctx.paths(f, 'default'):
            for e in p.trace:
                if e.fn is not f and not (e.kind == 'TXN_ENTER'):
                    # events of inlined helpers: the helper has its own retry parameter or none
                    pass
                if e.kind == 'TXN_ENTER':
                    k = (f.qual, e.fn.qual, e.line, e.node.col_offset, 'txn')
                    if k in sites:
                        continue
                    r = e.d['retry']
                    sites[k] = (_strong(r, True), 'the transaction is entered with retry=%r instead of the caller\'s '
                                'retry' % (r,), f, e)
                elif e.kind == 'CALL' and not e.d.get('inlined'):
                    for t in e.d['targets']:
                        if 'retry' not in t.params:
                            continue
                        k = (f.qual, e.fn.qual, e.line, e.node.col_offset, t.qual)
                        if k in sites:
                            continue
                        r = _retry_arg(e, t)
                        if r is None and _default_retry(t) is True:
                            sites[k] = (True, '', f, e)
                            continue
                        # on a path that has established `retry` to be false, passing nothing (or False) IS forwarding
                        rfalse = p.st.facts.get(('truthy', V('param', 'retry', f.module))) is False or any(
                            x.kind == 'TEST' and x.seq < e.seq and x.d['val'].k == 'param' and x.d['val'].a[0] == 'retry'
                            and not x.d['truth'] for x in p.trace)
                        if rfalse and (r is None or (r.is_const and not r.val)) and _default_retry(t) in (False, None):
                            sites.setdefault(k, (True, '', f, e))
                            continue
                        sites[k] = (_strong(r, True),
                                    '%s(retry=...) calls %s without forwarding retry (passes %r): with retry=True the '
                                    'call can still raise Timeout' % (f.qual, t.qual, r), f, e)
    obs = []
    ordinal = {}
    for k in sorted(sites):
        ok, why, f, e = sites[k]
        tgt = 'txn' if k[4] == 'txn' else k[4].split('.')[-1]
        base = '%s->%s' % (f.qual, tgt)
        ordinal[base] = ordinal.get(base, 0) + 1
        key = base if ordinal[base] == 1 else '%s#%d' % (base, ordinal[base])
        obs.append(Ob('R1', key, ok, why, e.fn.loc(e.node)))
    return obs


# ---------------------------------------------------------------------- R2
NEVER, IFNOT, MAY = 0, 1, 2   # Timeout: never / only when retry is not set / possible


def timeout_summary(ctx):
    """Least fixpoint: can calling f raise Timeout?  NEVER / IFNOT (only if
    its retry parameter is false) / MAY."""
    cache = getattr(ctx, '_tsum', None)
    if cache is not None:
        return cache
    funcs = [f for f in ctx.prog.all_funcs()]
    summ = {f.qual: NEVER for f in funcs}
    changed = True
    rounds = 0
    while changed and rounds < 12:
        changed = False
        rounds += 1
        for f in funcs:
            level = NEVER
            for p in ctx.paths(f, 'default'):
                for e in p.trace:
                    lv = NEVER
                    if e.kind == 'TXN_ENTER':
                        if e.txn:
                            continue    # nested in an own block of this activation: no BEGIN, no Timeout
                        r = e.d['retry']
                        if r.is_const and r.val is True:
                            lv = NEVER
                        elif r.k == 'param' and r.a[0] == 'retry':
                            lv = IFNOT
                        else:
                            lv = MAY
                        if e.d['tkind'] == 'delegate':
                            # FanoutCache/Deque/Index.transact: never times out (retry forced True; rule T6)
                            lv = NEVER
                    elif e.kind == 'CALL' and not e.d.get('inlined'):
                        if _catches_timeout(e):
                            continue
                        if e.txn and _same_cache_block(e):
                            continue
                        for t in e.d['targets']:
                            s = summ.get(t.qual, NEVER)
                            if s == NEVER:
                                continue
                            if s == MAY:
                                lv = max(lv, MAY)
                                continue
                            r = _retry_arg(e, t)
                            if r is None:
                                dr = _default_retry(t)
                                lv = max(lv, NEVER if dr is True else MAY)
                            elif r.is_const and r.val is True:
                                pass
                            elif r.k == 'param' and r.a[0] == 'retry':
                                lv = max(lv, IFNOT)
                            else:
                                lv = max(lv, MAY)
                    elif e.kind == 'RAISE' and e.d.get('typ') == 'Timeout' and e.d.get('at') == 'raise':
                        # explicit re-raise of a caught Timeout: covered by the path that raised it
                        continue
                    if lv > level and not _catches_timeout(e):
                        level = lv
            if level != summ[f.qual]:
                summ[f.qual] = level
                changed = True
    ctx._tsum = summ
    return summ


def _catches_timeout(e):
    return any(('Timeout' in hs or 'Exception' in hs or 'BaseException' in hs) for hs in e.handlers)


def _same_cache_block(e):
    """A call made inside an open transaction block of this activation.  The
    block is on the same cache in every such site of the package (Deque,
    Index, recipes use one cache per object); nested entry joins, no BEGIN."""
    return bool(e.txn)


R2_CLASSES = ('FanoutCache', 'DjangoCache', 'Deque', 'Index', 'Averager', 'Lock', 'RLock', 'BoundedSemaphore')
R2_EXEMPT = {
    'fanout.FanoutCache.check': 'documented to raise Timeout',
    'djangocache.DjangoCache.check': 'documented to raise Timeout',
}
FAIL_VALUES = {
    'set': False, 'touch': False, 'add': False, 'delete': False, 'incr': None, 'decr': None,
    'get': 'default', 'pop': 'default',
}


def _fanout_remove(ctx):
    from .framework import private_callee
    return private_callee(ctx, 'FanoutCache', ('clear', 'expire', 'evict', 'cull'))


@rule('R2', floor=40, title='FanoutCache/DjangoCache/Deque/Index/recipes data operations never let Timeout escape')
def r2(ctx):
    summ = timeout_summary(ctx)
    obs = []
    for cls in R2_CLASSES:
        ci = ctx.prog.classes.get(cls)
        if ci is None:
            raise AnalysisError('anchor vanished: class %s' % cls)
        for name, f in sorted(ci.methods.items()):
            if not f.is_public and not (cls == 'FanoutCache' and f is _fanout_remove(ctx)):
                continue
            lv = summ[f.qual]
            if f.qual in R2_EXEMPT:
                obs.append(Ob('R2', '%s.%s' % (cls, name), True, 'exempt: ' + R2_EXEMPT[f.qual], f.loc(), nontrivial=False))
                continue
            wit = None
            if lv != NEVER:
                wit = _escape_witness(ctx, f, summ)
            obs.append(Ob('R2', '%s.%s' % (cls, name), lv == NEVER,
                          '%s.%s can let Timeout escape%s: sharded/Django/persistent/recipe operations must report a '
                          'lock timeout through their return value or retry until they succeed' %
                          (cls, name, ' when retry is false' if lv == IFNOT else ''), f.loc(), wit,
                          nontrivial=bool(_has_calls(ctx, f))))
    # nested wrappers of recipes / memoize
    for f in ctx.prog.all_funcs():
        if f.parent is not None and f.name in ('wrapper', 'recompute') and f.module in ('recipes', 'core', 'djangocache'):
            lv = summ[f.qual]
            obs.append(Ob('R2', f.qual, lv == NEVER, '%s can let Timeout escape' % f.qual, f.loc(),
                          _escape_witness(ctx, f, summ) if lv != NEVER else None))
    # failure values of the FanoutCache handlers
    fc = ctx.prog.classes['FanoutCache']
    for name, want in sorted(FAIL_VALUES.items()):
        f = fc.methods.get(name)
        if f is None:
            raise AnalysisError('anchor vanished: FanoutCache.%s' % name)
        ok = False
        n = 0
        for p in ctx.paths(f, 'default'):
            if p.kind != 'return':
                continue
            if not any(e.kind == 'CATCH' and e.d['typ'] == 'Timeout' for e in p.trace):
                continue
            n += 1
            rv = p.outcome[1]
            if want == 'default':
                ok = rv.k == 'param' and rv.a[0] == 'default'
            else:
                ok = rv.is_const and rv.val is want
            if not ok:
                break
        obs.append(Ob('R2', 'FanoutCache.%s/failure-value' % name, ok and n > 0,
                      'on Timeout FanoutCache.%s must return %s' % (name, want), f.loc()))
    return obs


def _has_calls(ctx, f):
    for p in ctx.paths(f, 'default'):
        for e in p.trace:
            if e.kind in ('CALL', 'TXN_ENTER'):
                return True
    return False


def _escape_witness(ctx, f, summ):
    for p in ctx.paths(f, 'default'):
        for e in p.trace:
            if e.kind == 'CALL' and not e.d.get('inlined') and not _catches_timeout(e) and not (e.txn):
                for t in e.d['targets']:
                    if summ.get(t.qual, NEVER) != NEVER:
                        r = _retry_arg(e, t)
                        if not (r is not None and r.is_const and r.val is True) and not (
                                r is None and _default_retry(t) is True):
                            return ['%s: calls %s with retry=%r outside any `except Timeout`' % (e.loc(), t.qual, r)]
            if e.kind == 'TXN_ENTER' and not e.txn and not _catches_timeout(e):
                r = e.d['retry']
                if not (r.is_const and r.val is True) and e.d['tkind'] != 'delegate':
                    return ['%s: enters a transaction with retry=%r outside any `except Timeout`' % (e.loc(), r)]
    return None


# ---------------------------------------------------------------------- R3 / R4
R3_TRUE_DEFAULTS = [('DjangoCache', m) for m in ('add', 'set', 'touch', 'pop', 'delete', 'incr', 'decr')] + \
    [('Cache', '__delitem__'), ('FanoutCache', 'transact')]


@rule('R3', floor=12, title='operator forms and Django write methods wait for the lock (retry=True)')
def r3(ctx):
    obs = []
    for cls, m in R3_TRUE_DEFAULTS:
        f = ctx.method(cls, m)
        obs.append(Ob('R3', '%s.%s/default-retry-true' % (cls, m), _default_retry(f) is True,
                      '%s.%s must default to retry=True' % (cls, m), f.loc()))
    # operator forms call their worker with retry=True
    for cls, m, callee in (('Cache', '__setitem__', 'set'), ('Cache', '__getitem__', 'get'),
                           ('FanoutCache', 'read', 'get')):
        f = ctx.method(cls, m)
        ok = False
        for p in ctx.paths(f, 'plain'):
            for e in p.trace:
                if e.kind == 'CALL' and e.d['name'] == callee:
                    r = _retry_arg(e, e.d['targets'][0])
                    ok = r is not None and r.is_const and r.val is True
                    # ... or forwards its own `retry` parameter whose default is True
                    if not ok and r is not None and r.k == 'param' and r.a[0] == 'retry' and _default_retry(f) is True:
                        ok = True
        obs.append(Ob('R3', '%s.%s/retry-true' % (cls, m), ok, '%s.%s must call %s(retry=True): indexing syntax has no '
                      'way to report a timeout' % (cls, m, callee), f.loc()))
    # every other public operation of Cache and FanoutCache reports a lock timeout by default (retry=False): a True
    # default turns "Timeout / failure value after `timeout` seconds" into blocking forever
    special = set(R3_TRUE_DEFAULTS)
    for cls in ('Cache', 'FanoutCache'):
        for m, f in sorted(ctx.prog.classes[cls].methods.items()):
            if (cls, m) in special or 'retry' not in f.params or (m.startswith('_') and not m.startswith('__')):
                continue
            if cls == 'FanoutCache' and ctx.prog.classes['Cache'].methods.get(m) is f:
                continue
            obs.append(Ob('R3', '%s.%s/default-retry-false' % (cls, m), _default_retry(f) is False,
                          '%s.%s must default to retry=False (documented): with a True default the call never times '
                          'out and never reports failure' % (cls, m), f.loc()))
    return obs


R4_READERS = [('Cache', '__contains__'), ('Cache', '__iter__'), ('Cache', '__reversed__'), ('Cache', '<iter-helper>'),
              ('Cache', 'iterkeys'), ('Cache', '__len__'), ('Cache', 'volume')]


@rule('R4', floor=7, title='read-only operations never take the write lock')
def r4(ctx):
    obs = []
    for cls, m in R4_READERS:
        if m == '<iter-helper>':
            from .rules_api import _iter_helper
            f = _iter_helper(ctx)
        else:
            f = ctx.method(cls, m)
        bad = None
        for p in ctx.paths(f, 'default'):
            for e in p.trace:
                if e.kind == 'TXN_ENTER' or (e.kind == 'SQL' and e.d['stmt'] is not None and
                                            e.d['stmt'].kind in ('begin', 'insert', 'update', 'delete')):
                    bad = p
        obs.append(Ob('R4', '%s.%s/no-lock' % (cls, m), bad is None,
                      '%s.%s opens a transaction or writes: lookups that need no write must keep working while another '
                      'client holds the lock' % (cls, m), f.loc(), fmt_trace(bad.trace) if bad else None))
    return obs


# ---------------------------------------------------------------------- R5
@rule('R5', floor=1, title='busy-retry loops (retry executor, pragma loop of reset) keep retrying a locked database until their deadline')
def r5(ctx):
    """After `except sqlite3.OperationalError` for 'database is locked' the loop must raise only when
    (clock now) - (clock before the loop) exceeds the limit, and otherwise sleep and try again.  A reversed test or a
    mis-computed elapsed time turns "retry for 60 seconds" into "fail at once" (or never give up)."""
    obs = []
    cands = []
    rp = ctx.prog.roles.get('sql_retry_prop')
    for f in ctx.prog.all_funcs():
        if f.module != 'core' or f.nested:
            continue
        # a loop that catches sqlite3.OperationalError and sleeps before trying again
        for w in ast.walk(f.node):
            if isinstance(w, ast.While) and any(
                    isinstance(t, ast.Try) and any(
                        h.type is not None and (dotted(h.type) or '').endswith('OperationalError') and any(
                            isinstance(c, ast.Call) and (dotted(c.func) or '').endswith('sleep') for c in ast.walk(h))
                        for h in t.handlers) for t in ast.walk(w)):
                if f not in cands:
                    cands.append(f)
    for f in cands:
        ok, why, n, undecided = True, '', 0, False
        for p in ctx.paths(f, 'default'):
            tr = p.trace
            for i, e in enumerate(tr):
                if e.kind != 'CATCH' or e.d.get('typ') != 'sqlite3.OperationalError':
                    continue
                seg = []
                for x in tr[i + 1:]:
                    if x.kind in ('CATCH', 'LOOP') and x is not e:
                        seg.append(x)
                        break
                    seg.append(x)
                tests = [x for x in seg if x.kind == 'TEST' and x.d['val'].k == 'cmp']
                dl = [x for x in tests if x.d['val'].a[0] in (('Gt',), ('GtE',), ('Lt',), ('LtE',))
                      and any(y.k == 'now' for z in x.d['val'].a[1] for y in values_in(z))]
                if not dl:
                    continue
                t = dl[0]
                op = t.d['val'].a[0][0]
                a, b = t.d['val'].a[1]
                if a.k == 'term' and len(a.a[1]) == 2 and all(z.k == 'now' for z in a.a[1]) and a.a[0] != 'Sub':
                    n += 1
                    ok, why = False, 'the elapsed time is computed with %s instead of a difference of two clock values' % a.a[0]
                    continue
                if not (a.k == 'term' and a.a[0] == 'Sub' and len(a.a[1]) == 2 and all(z.k == 'now' for z in a.a[1])
                        and b.is_const and isinstance(b.val, (int, float))):
                    undecided = True
                    continue
                later, earlier = a.a[1]
                n += 1
                if not (later.a[0] > e.seq > earlier.a[0]):
                    ok, why = False, 'the elapsed time is not (clock read after the failure) - (clock read before the loop)'
                exceeded = t.d['truth'] if op in ('Gt', 'GtE') else not t.d['truth']
                after = tr[t.seq + 1:]
                raised = bool(after) and after[0].kind == 'RAISE'
                slept = any(x.kind == 'EXT' and x.d['name'] == 'time.sleep' for x in seg if x.seq > t.seq)
                if exceeded and not raised:
                    ok, why = False, 'the loop goes on although the deadline has passed'
                if not exceeded and (raised or not slept):
                    ok, why = False, 'the loop gives up (or spins without sleeping) although the deadline has not passed'
                if b.val <= 0:
                    ok, why = False, 'the retry deadline is not positive'
        if n == 0 and undecided:
            obs.append(Ob('R5', '%s/deadline' % f.qual.replace('core.', ''), True, 'not decided: deadline test of an '
                          'unrecognised shape', f.loc(), nontrivial=False))
        else:
            obs.append(Ob('R5', '%s/deadline' % f.qual.replace('core.', ''), ok and n > 0,
                          '%s: %s - statements that must wait for a busy database (schema set-up, reset, pragmas) fail '
                          'immediately or never time out' % (f.qual, why or 'no deadline test found after the busy '
                                                            'handler'), f.loc()))
    if not obs:
        raise AnalysisError('R5: no busy-retry loop found')
    return obs
