"""S rules: sharding (routing, hash, aggregates, argument pass-through)."""
import ast

from .framework import rule, Ob, fmt_trace, sql_events, call_events, values_in, deep_values, real_call
from .model import AnalysisError, walk_shallow, dotted
from .values import V, C


def _is_route(v):
    """self._shards[self._hash(key) % self._count] -> key value or None."""
    if v.k != 'item':
        return None
    base, idx = v.a
    if not (base.k == 'selfattr' and base.a[1] == '_shards'):
        return None
    if not (idx.k == 'term' and idx.a[0] == 'Mod'):
        return None
    h, c = idx.a[1]
    if not (c.k == 'selfattr' and c.a[1] == '_count'):
        return None
    if h.k != 'ucall':
        return None
    return h.a[0]   # seq of the hash call


@rule('S1', floor=12, title='every key-addressed FanoutCache method routes to shards[hash(key) % count] with the same key')
def s1(ctx):
    obs = []
    ci = ctx.prog.classes['FanoutCache']
    for name, f in sorted(ci.methods.items()):
        if 'key' not in f.params or f.name in ('reset',):
            continue
        if f.name.startswith('_') and not f.name.startswith('__'):
            continue     # private routing helper: analysed inlined into the public methods
        ok = True
        why = ''
        wit = None
        n = 0
        for p in ctx.paths(f, 'default'):
            if p.kind == 'cut':
                continue
            calls = [e for e in p.trace if e.kind == 'CALL' and any(t.cls in ('Cache', 'FanoutCache') for t in e.d['targets'])
                     and not e.d.get('inlined')]
            if not calls:
                continue
            for c in calls:
                n += 1
                recv = c.d['recv']
                args = c.d['args']
                kw = c.d['kwargs']
                keyarg = args[0] if args else kw.get('key')
                if recv is not None and recv.k == 'self':
                    # delegation to another routed method of the same object
                    tgt = c.d['targets'][0]
                    if not (keyarg is not None and keyarg.k == 'param' and keyarg.a[0] == 'key' and 'key' in tgt.params):
                        ok, why, wit = False, 'delegates without passing its key', fmt_trace(p.trace)
                    continue
                hseq = _is_route(recv) if recv is not None else None
                if hseq is None:
                    ok, why, wit = False, 'calls %s on a shard that is not shards[hash(key) %% count]' % c.d['name'], fmt_trace(p.trace)
                    continue
                hev = p.trace[hseq]
                callee = hev.d['callee']
                ha = hev.d['args']
                if not (callee.k == 'selfattr' and callee.a[1] == '_hash' and len(ha) == 1 and ha[0].k == 'param'
                        and ha[0].a[0] == 'key'):
                    ok, why, wit = False, 'the shard index is not computed from self._hash(key)', fmt_trace(p.trace)
                if not (keyarg is not None and keyarg.k == 'param' and keyarg.a[0] == 'key'):
                    ok, why, wit = False, 'the shard is called with a different key than the one hashed', fmt_trace(p.trace)
        # a method that mirrors a key-addressed Cache method must reach a shard; a new accessor that never touches the
        # shard list (e.g. one that only reports the index) addresses nothing
        mirrors = name in ctx.prog.classes['Cache'].methods
        touches = any(isinstance(x, ast.Attribute) and x.attr == '_shards' for x in ast.walk(f.node))
        obs.append(Ob('S1', 'FanoutCache.%s' % name, ok and (n > 0 or not (mirrors or touches)),
                      why or 'no shard call found', f.loc(), wit))
        # operator forms stand for the same operator of the shard (a membership test that goes through get() counts as
        # a hit or miss and refreshes the access time / count)
        if name in ('__contains__', '__getitem__', '__setitem__', '__delitem__'):
            same, m = True, 0
            for p in ctx.paths(f, 'default'):
                for c in p.trace:
                    if c.kind == 'CALL' and not c.d.get('inlined') and any(t.cls == 'Cache' for t in c.d['targets']):
                        m += 1
                        if not all(t.name == name for t in c.d['targets']):
                            same = False
            obs.append(Ob('S1', 'FanoutCache.%s/same-operator' % name, same and m > 0,
                          'FanoutCache.%s does not use the shard\'s %s: the operator form then has the side effects of '
                          'another method (statistics, access time, different failure behaviour)' % (name, name), f.loc()))
    # self._hash is the Disk.hash of a shard's disk; self._count = shards
    init = ctx.method('FanoutCache', '__init__')
    okh = okc = False
    for p in ctx.paths(init, 'plain'):
        for e in p.trace:
            if e.kind == 'SETATTR' and e.d['attr'] == '_hash':
                v = e.d['val']
                okh = any(x.k == 'attr' and x.a[1] == 'hash' for x in values_in(v)) or \
                    (v.k == 'bound' and v.a[1] == 'hash')
                # ... of a shard's own disk (which merged the settings stored in the directory), not of a disk
                # object built on the side from constructor arguments only
                from_shard = any((x.k == 'selfattr' and x.a[1] == '_shards') or (x.k == 'new' and x.a[0] == 'Cache')
                                 for x in deep_values(v, p.trace))
                okh = okh and from_shard
            if e.kind == 'SETATTR' and e.d['attr'] == '_count':
                okc = e.d['val'].k == 'param' and e.d['val'].a[0] == 'shards'
    obs.append(Ob('S1', 'FanoutCache.__init__/hash-and-count', okh and okc,
                  'self._hash is not the hash method of a shard\'s own disk (a disk built separately does not see the '
                  'disk_* settings stored in the directory, so keys pickled with the stored protocol route to other '
                  'shards after a reopen) or self._count is not the shard count', init.loc()))
    return obs


HASH_ALLOWED = {'type', 'zlib.adler32', 'struct.pack', 'self.put'}
HASH_FORBIDDEN = {'hash', 'id', 'random', 'os.urandom', 'time.time', 'os.getpid', 'uuid'}


@rule('S2', floor=2, title='Disk.hash is a pure function of the key: no salted hash(), id(), randomness, time or pid')
def s2(ctx):
    f = ctx.method('Disk', 'hash')
    bad = []
    calls = 0
    for n in walk_shallow(f.node):
        if isinstance(n, ast.Call):
            calls += 1
            d = dotted(n.func) or ''
            full = ctx.prog.resolve_name('core', d)
            if d in HASH_ALLOWED or full in HASH_ALLOWED:
                continue
            if isinstance(n.func, ast.Attribute) and n.func.attr in ('encode', 'to_bytes', 'hex'):
                continue
            # pure conversions / predicates are fine; what must not enter is anything that differs between
            # processes, runs or objects
            unstable = d in HASH_FORBIDDEN or full in HASH_FORBIDDEN or full.split('.')[0] in (
                'random', 'time', 'uuid', 'secrets', 'os', 'threading', 'socket') or d in ('hash', 'id', 'object', 'vars', 'dir')
            if unstable:
                bad.append((n, d or ast.unparse(n.func)))
        if isinstance(n, ast.Name) and n.id in ('hash', 'id') and isinstance(n.ctx, ast.Load):
            bad.append((n, n.id))
    obs = [Ob('S2', 'Disk.hash/pure', not bad and calls > 0,
              'Disk.hash uses %s: the shard of a key would differ between processes or runs (PYTHONHASHSEED, object '
              'identity, randomness)' % sorted({b for _, b in bad}), f.loc(bad[0][0]) if bad else f.loc())]
    # depends on key only through self.put(key)
    ok = False
    for p in ctx.paths(f, 'plain'):
        puts = [e for e in p.trace if e.kind == 'CALL' and any(t.qual.endswith('Disk.put') for t in e.d['targets'])]
        ok = len(puts) == 1 and puts[0].d['args'] and puts[0].d['args'][0].k == 'param'
        if not ok:
            break
        rv = p.outcome[1] if p.kind == 'return' else None
        if rv is not None and any(x.k == 'param' and x.a[0] == 'key' for x in values_in(rv)):
            ok = False
            break
    obs.append(Ob('S2', 'Disk.hash/via-put', ok, 'Disk.hash does not derive the hash from the database form of the key '
                  '(self.put(key)) alone: equal database keys could hash differently', f.loc()))
    return obs


@rule('S3', floor=1, title='keys the database treats as equal (1 and 1.0) must hash equal')
def s3(ctx):
    f = ctx.method('Disk', 'hash')
    bad = None
    n = 0
    for p in ctx.paths(f, 'plain'):
        if p.kind != 'return':
            continue
        is_float = any(e.kind == 'TEST' and e.d['truth'] and e.d['val'].k == 'cmp' and e.d['val'].a[0] == ('Is',)
                       and any(x.k == 'builtin' and x.a[0] == 'float' for x in e.d['val'].a[1]) for e in p.trace) or \
            any(e.kind == 'EXT' and e.d['name'] == 'struct.pack' for e in p.trace)
        if not is_float:
            continue
        n += 1
        normalised = any((e.kind == 'MCALL' and e.d['name'] == 'is_integer') or
                         (e.kind == 'TEST' and any(x.k == 'term' and x.a[0] == 'int' for x in values_in(e.d['val'])))
                         for e in p.trace)
        if not normalised:
            bad = p
    return [Ob('S3', 'Disk.hash/float-int-agreement', bad is None and n > 0,
               'the float branch hashes the IEEE bytes without mapping integral values to the int branch: 1 and 1.0 '
               'are one key for SQLite (and for Cache) but route to different shards', f.loc(),
               fmt_trace(bad.trace) if bad else None)]


AGG = ('__len__', 'volume', 'stats', 'check', '_remove', '__iter__', '__reversed__', 'close', 'reset',
       'create_tag_index', 'drop_tag_index', 'transact')


@rule('S4', floor=12, title='aggregate operations visit every shard of self._shards exactly once and combine all results')
def s4(ctx):
    obs = []
    for name in AGG:
        if name == '_remove':
            from .rules_retry import _fanout_remove
            f = _fanout_remove(ctx)
        else:
            f = ctx.method('FanoutCache', name)
        # syntactic: exactly one iteration construct over self._shards (or reversed(self._shards)), no slicing
        iters = []
        for n in ast.walk(f.node):
            it = None
            if isinstance(n, ast.For):
                it = n.iter
            elif isinstance(n, ast.comprehension):
                it = n.iter
            elif isinstance(n, ast.Call) and isinstance(n.func, ast.Name) and n.func.id == 'map' and len(n.args) == 2:
                it = n.args[1]      # map(f, shards): f is applied to every element, no filter possible
            if it is None:
                continue
            src = ast.unparse(it)
            iters.append((src, n))
        shard_iters = [(s, n) for s, n in iters if '_shards' in s]
        # `for m in (getattr(shard, name) for shard in self._shards)`: one iteration over the shards, written as a loop
        # over a generator of per-shard values
        lazy = [n for _, n in shard_iters if isinstance(n, ast.For) and isinstance(n.iter, ast.GeneratorExp)
                and len(n.iter.generators) == 1 and not n.iter.generators[0].ifs]
        lazy_for = None
        if len(lazy) == 1 and len(shard_iters) == 2:
            lazy_for = lazy[0]
            inner = lazy_for.iter.generators[0]
            shard_iters = [(ast.unparse(inner.iter), lazy_for)]
        ok = len(shard_iters) == 1 and shard_iters[0][0] in ('self._shards', 'reversed(self._shards)', 'self._shards[::-1]')
        why = 'iterates %s' % [s for s, _ in shard_iters]
        if ok:
            node0 = shard_iters[0][1]
            if isinstance(node0, ast.comprehension) and node0.ifs:
                ok, why = False, 'shards are filtered by `if %s`' % ast.unparse(node0.ifs[0])
            if isinstance(node0, ast.For):
                for st_ in node0.body:
                    if isinstance(st_, ast.If) or any(isinstance(x, ast.Continue) for x in ast.walk(st_)
                                                      if not isinstance(st_, (ast.While,))):
                        inner_while = isinstance(st_, ast.While)
                        if not inner_while:
                            ok, why = False, 'the per-shard call is conditional (if/continue in the shard loop)'
        # the per-shard call uses the loop variable as receiver
        if ok and not isinstance(shard_iters[0][1], ast.Call):
            node = shard_iters[0][1]
            tgt = node.target
            var = tgt.id if isinstance(tgt, ast.Name) else None
            if node is lazy_for:
                tgt = node.iter.generators[0].target
                var = tgt.id if isinstance(tgt, ast.Name) else None
            body = node if isinstance(node, ast.For) else None
            uses = False
            scope = f.node
            for m in ast.walk(scope):
                if isinstance(m, ast.Call):
                    if isinstance(m.func, ast.Attribute) and isinstance(m.func.value, ast.Name) and m.func.value.id == var:
                        uses = True
                    if isinstance(m.func, ast.Name) and m.func.id in ('len', 'iter', 'reversed', 'getattr') and m.args \
                            and isinstance(m.args[0], ast.Name) and m.args[0].id == var:
                        uses = True
                    # ... or hands the shard to a private helper of the class
                    if (dotted(m.func) or '').startswith('self._') and any(
                            isinstance(a, ast.Name) and a.id == var for a in m.args):
                        uses = True
            if not uses:
                ok, why = False, 'the loop variable is not the receiver of the per-shard call'
            # no early exit from the shard loop
            if isinstance(node, ast.For):
                for m in ast.walk(node):
                    if isinstance(m, (ast.Break, ast.Return)):
                        # a `break` that belongs to an inner while loop is fine
                        inner = any(isinstance(w, ast.While) and any(x is m for x in ast.walk(w)) for w in ast.walk(node)
                                    if w is not node)
                        if not inner:
                            ok, why = False, 'the shard loop can exit early'
        obs.append(Ob('S4', 'FanoutCache.%s/all-shards' % name, ok,
                      'aggregate %s does not iterate exactly self._shards (%s): some shard is skipped or visited twice'
                      % (name, why), f.loc()))
    # combination: the result depends on the per-shard call of the (abstract) iteration
    per_shard = {'__len__': '__len__', 'volume': 'volume', 'stats': 'stats', '__iter__': '__iter__',
                 '__reversed__': '__reversed__', 'check': 'check'}
    for name, callee in per_shard.items():
        f = ctx.method('FanoutCache', name)
        ok, n = True, 0
        for p in ctx.paths(f, 'plain'):
            if p.kind != 'return':
                continue
            calls = [e for e in p.trace if e.kind == 'CALL' and e.d['targets'][0].cls == 'Cache'
                     and e.d['targets'][0].name == callee]
            if not calls:
                if any(e.kind == 'FOR' and e.d['it'] == 0 for e in p.trace):
                    continue      # no shards
                ok = False
                continue
            # a loop over the collected per-shard results that runs zero times means "no shards"
            if any(e.kind == 'FOR' and e.d['it'] == 0 and any(x.k == 'ret' and x.a[0] in {c.seq for c in calls}
                                                              for x in deep_values(e.d['iter'], p.trace))
                   for e in p.trace):
                continue
            n += 1
            rets = {('ret', c.seq) for c in calls}
            have = {(x.k, x.a[0]) for x in deep_values(p.outcome[1], p.trace) if x.k == 'ret'}
            if not rets <= have:
                ok = False
        if name == '__reversed__':
            src_ = ast.unparse(f.node)
            if not ('reversed(self._shards)' in src_ or 'self._shards[::-1]' in src_):
                ok = False
        obs.append(Ob('S4', 'FanoutCache.%s/combines' % name, ok and n > 0,
                      'the result of %s does not depend on the per-shard %s of every shard (for __reversed__: shards '
                      'in reverse order, each reversed)' % (name, callee), f.loc()))
    # _remove: adds timeout.args[0] and retries the same shard
    from .rules_retry import _fanout_remove
    f = _fanout_remove(ctx)
    ok = False
    okretry = False
    for p in ctx.paths(ctx.method('FanoutCache', 'clear'), 'default'):
        catches = [e for e in p.trace if e.kind == 'CATCH' and 'Timeout' in e.d['handler']]
        calls = [e for e in p.trace if e.kind == 'CALL' and any(t.qual == 'core.Cache.clear' for t in e.d['targets'])]
        if catches and len(calls) >= 2:
            # after a Timeout the same shard is called again (same loop iteration)
            fors = [e for e in p.trace if e.kind == 'FOR' and e.d['it'] == 1]
            if len(fors) == 1:
                okretry = True
        if p.kind == 'return' and catches:
            rv = p.outcome[1]
            if any(x.k in ('item', 'field') and x.a[0].k == 'attr' and x.a[0].a[1] == 'args' and x.a[1] in (0, C(0))
                   for x in values_in(rv)):
                ok = True
    obs.append(Ob('S4', 'FanoutCache._remove/timeout-count-added', ok,
                  'the partial count carried by Timeout (timeout.args[0]) is not added to the total', f.loc()))
    obs.append(Ob('S4', 'FanoutCache._remove/retries-same-shard', okretry,
                  'after a Timeout the same shard is not retried: its remaining items are skipped', f.loc()))
    # every attempt contributes exactly once: its result when it succeeded, the count carried by its Timeout when it
    # did not - followed over two shards, so that a value left over from the previous shard is seen
    okonce, nsum, wit = True, 0, None
    for p in ctx.paths(ctx.method('FanoutCache', 'clear'), 'for2'):
        if p.kind != 'return':
            continue
        calls = [e for e in p.trace if e.kind == 'CALL' and any(t.qual == 'core.Cache.clear' for t in e.d['targets'])]
        if not calls:
            continue
        want_ret, want_exc = [], 0
        for i, c in enumerate(calls):
            end = calls[i + 1].seq if i + 1 < len(calls) else len(p.trace)
            failed = any(e.kind == 'CATCH' and 'Timeout' in e.d['handler'] and c.seq < e.seq < end for e in p.trace)
            if failed:
                want_exc += 1
            else:
                want_ret.append(c.seq)
        got_ret, got_exc, other = [], 0, []
        for x in _summands(p.outcome[1]):
            if x.k == 'ret':
                got_ret.append(x.a[0])
            elif x.k in ('item', 'field') and x.a[0].k == 'attr' and x.a[0].a[1] == 'args':
                got_exc += 1
            elif x.is_const and x.val == 0:
                pass
            else:
                other.append(x)
        nsum += 1
        if sorted(got_ret) != sorted(want_ret) or got_exc != want_exc or other:
            okonce, wit = False, fmt_trace(p.trace)
    obs.append(Ob('S4', 'FanoutCache._remove/each-attempt-counted-once', okonce and nsum >= 4,
                  'the total returned by clear/expire/evict/cull is not the sum of one contribution per attempt (the '
                  'result of a successful call, the partial count of a timed-out one): a count is added twice, dropped, '
                  'or carried over from the previous shard', f.loc(), wit))
    return obs


def _summands(v):
    if v.k == 'term' and v.a[0] == 'Add':
        out = []
        for x in v.a[1]:
            out.extend(_summands(x))
        return out
    return [v]


@rule('S5', floor=1, title='the total size limit is divided among the shards')
def s5(ctx):
    f = ctx.method('FanoutCache', '__init__')
    ok = False
    n = 0
    for p in ctx.paths(f, 'plain'):
        for e in p.trace:
            if e.kind == 'NEW' and e.d['name'] == 'Cache':
                v = e.d['kwargs'].get('size_limit')
                if v is None and n > 0:
                    continue        # a shard created without an explicit limit keeps the stored one (see P6)
                n += 1
                ok = v is not None and v.k == 'term' and v.a[0] in ('Div', 'FloorDiv') and \
                    v.a[1][1].k == 'param' and v.a[1][1].a[0] == 'shards'
                if ok:
                    num = v.a[1][0]
                    ok = num.k in ('mcall', 'term', 'ucall') or any(
                        x.k == 'param' and x.a[0].lstrip('*') == 'settings' for x in values_in(num)) or num.k == 'ret'
    return [Ob('S5', 'FanoutCache.__init__/size-limit-divided', ok and n > 0,
               'each shard is not created with size_limit = total / shards: the sharded cache would hold up to shards '
               'times its configured size (or evict far too early)', f.loc())]


ALIASES = {'timeout': 'expire'}
S6_MODULES = ('fanout', 'djangocache', 'persistent', 'recipes', 'core')


@rule('S6', floor=30, title='delegating calls pass each parameter to the callee parameter of the same name')
def s6(ctx):
    sites = {}
    for f in ctx.prog.all_funcs():
        if f.module not in S6_MODULES:
            continue
        if f.module == 'core' and not (f.name in ('decr', '__setitem__', '__getitem__', 'read', 'delete', 'wrapper')):
            continue
        for p in ctx.paths(f, 'default'):
            for e in p.trace:
                if not real_call(e) or e.d.get('operator'):
                    continue
                k = (f.qual, e.line, e.node.col_offset)
                if k in sites:
                    continue
                tg = e.d['targets']
                if not all(t.cls in ('Cache', 'FanoutCache', 'DjangoCache', 'Deque', 'Index') for t in tg):
                    continue
                ok, why = True, ''
                for t in tg:
                    params = t.params
                    args = e.d['args']
                    if any(a.k == 'star' for a in args):
                        continue
                    if len(args) > len(params) and not t.vararg:
                        ok, why = False, '%d positional arguments for %s%s' % (len(args), t.qual, tuple(params))
                        continue
                    for i, a in enumerate(args):
                        if a.k == 'param' and i < len(params):
                            an = a.a[0]
                            pn = params[i]
                            an2 = ALIASES.get(an, an)
                            # a pass-through: the callee has a parameter of this name, at another position
                            if an != pn and an2 != pn and (an in params or an2 in params):
                                ok = False
                                why = 'parameter `%s` is passed positionally into `%s` of %s' % (an, pn, t.qual)
                    for kw in e.d['kwargs']:
                        if kw not in params and kw not in t.kwonly and not t.kwarg:
                            ok, why = False, 'keyword `%s` does not exist in %s' % (kw, t.qual)
                    # a bare parameter passed by keyword under another name
                    for kw, a in e.d['kwargs'].items():
                        if a.k == 'param' and a.a[0] != kw and ALIASES.get(a.a[0]) != kw and \
                                a.a[0] in params and a.a[0] != kw:
                            ok, why = False, 'parameter `%s` is passed as keyword `%s` of %s' % (a.a[0], kw, t.qual)
                sites[k] = (ok, why, f, e)
    obs = []
    ordinal = {}
    for k in sorted(sites):
        ok, why, f, e = sites[k]
        base = '%s->%s' % (f.qual, e.d['name'])
        ordinal[base] = ordinal.get(base, 0) + 1
        key = base if ordinal[base] == 1 else '%s#%d' % (base, ordinal[base])
        obs.append(Ob('S6', key, ok, why, f.loc(e.node)))
    return obs


@rule('S8', floor=20, title='a FanoutCache method has the same parameter defaults as the Cache method it stands for')
def s8(ctx):
    """Sibling agreement: callers may swap Cache for FanoutCache; a different default (retry, default, delta, expire,
    read, side, prefix ...) makes the sharded cache behave differently for the same call."""
    obs = []
    fc = ctx.prog.classes['FanoutCache']
    cc = ctx.prog.classes['Cache']
    for name, f in sorted(fc.methods.items()):
        g = cc.methods.get(name)
        if g is None or f.is_property or name.startswith('_') and not name.startswith('__') or name in ('__init__', 'transact'):
            continue
        # resolve class-level aliases (FanoutCache.memoize = Cache.memoize): same object, nothing to compare
        if f is g:
            continue
        for p in f.params:
            if p not in g.params:
                continue
            df, dg = f.defaults.get(p), g.defaults.get(p)
            same = (df is None and dg is None) or (df is not None and dg is not None and ast.dump(df) == ast.dump(dg))
            if not same and df is not None and dg is not None:
                try:
                    same = ctx.fold(df, f.module) == ctx.fold(dg, g.module)
                except ValueError:
                    same = False
            obs.append(Ob('S8', 'FanoutCache.%s/%s' % (name, p), same,
                          'FanoutCache.%s(%s=%s) but Cache.%s(%s=%s): the same call behaves differently on a sharded '
                          'cache' % (name, p, ast.unparse(df) if df is not None else '<required>', name, p,
                                     ast.unparse(dg) if dg is not None else '<required>'), f.loc()))
    # the Django adapter: same defaults as the FanoutCache method of the same name (its write methods wait for the
    # lock by design - R3 - and timeout/version are its own parameters)
    dc = ctx.prog.classes.get('DjangoCache')
    if dc is not None:
        for name, f in sorted(dc.methods.items()):
            g = fc.methods.get(name)
            if g is None or f.is_property or name.startswith('_') or f is g:
                continue
            for p in f.params:
                if p not in g.params or p in ('retry', 'timeout', 'version', 'expire'):
                    continue
                if name in ('incr', 'decr') and p == 'default':
                    continue        # Django's incr/decr raise ValueError for a missing key: default=None by contract
                df, dg = f.defaults.get(p), g.defaults.get(p)
                same = (df is None and dg is None) or (df is not None and dg is not None and ast.dump(df) == ast.dump(dg))
                if not same and df is not None and dg is not None:
                    try:
                        same = ctx.fold(df, f.module) == ctx.fold(dg, g.module)
                    except ValueError:
                        same = False
                obs.append(Ob('S8', 'DjangoCache.%s/%s' % (name, p), same,
                              'DjangoCache.%s(%s=%s) but FanoutCache.%s(%s=%s)' % (
                                  name, p, ast.unparse(df) if df is not None else '<required>', name, p,
                                  ast.unparse(dg) if dg is not None else '<required>'), f.loc()))
    # the memoize family: same defaults for the parameters they share with Cache.memoize
    base = cc.methods.get('memoize')
    fam = []
    for q in ('djangocache.DjangoCache.memoize', 'recipes.memoize_stampede', 'persistent.Index.memoize'):
        if q in ctx.prog.funcs:
            fam.append(ctx.prog.funcs[q])
    for g in fam:
        if base is None or g is base:
            continue
        for p in g.params:
            if p not in base.params or p in ('expire', 'timeout'):
                continue
            df, dg = g.defaults.get(p), base.defaults.get(p)
            same = (df is None and dg is None) or (df is not None and dg is not None and ast.dump(df) == ast.dump(dg))
            obs.append(Ob('S8', '%s/%s' % (g.qual, p), same,
                          '%s(%s=%s) but Cache.memoize(%s=%s): the decorators document the same defaults' % (
                              g.qual, p, ast.unparse(df) if df is not None else '<required>', p,
                              ast.unparse(dg) if dg is not None else '<required>'), g.loc()))
    return obs
