"""Object-state rules: per-object state lives on the instance (I2), one sub-container handle per name (S7),
wrapper attributes survive functools.update_wrapper (M5), the Django adapter's memoize key level (D5) and
constructor arguments are not mutated (D6)."""
import ast

from .framework import rule, Ob, fmt_trace, values_in, deep_values
from .model import AnalysisError, dotted
from .values import V

MUTATOR_METHODS = {'pop', 'popitem', 'update', 'setdefault', 'clear', 'append', 'extend', 'remove', 'insert',
                   'add', 'discard', 'appendleft', 'sort', 'reverse'}
MUTABLE_CTORS = {'dict', 'list', 'set', 'defaultdict', 'OrderedDict', 'deque', 'bytearray', 'Counter'}


def _is_mutable_display(node, prog, module):
    if isinstance(node, (ast.Dict, ast.List, ast.Set, ast.ListComp, ast.DictComp, ast.SetComp)):
        return True
    if isinstance(node, ast.Call):
        d = (dotted(node.func) or '').split('.')[-1]
        return d in MUTABLE_CTORS
    return False


@rule('I2', floor=8, title='per-object state lives on the instance: no class-level mutable containers, no stores on class objects, '
                           'alternate constructors initialise the fields __init__ does')
def i2(ctx):
    obs = []
    prog = ctx.prog
    # (1) class bodies: an attribute bound to a mutable container at class level is one object shared by every
    #     instance; that is a defect when methods mutate it through the instance and __init__ does not give each
    #     instance its own (a read-only lookup table at class level is fine)
    for cname, ci in sorted(prog.classes.items()):
        bad = None
        for n in ci.node.body:
            tgt = None
            if isinstance(n, ast.Assign) and _is_mutable_display(n.value, prog, ci.module) and len(n.targets) == 1 \
                    and isinstance(n.targets[0], ast.Name):
                tgt = n.targets[0].id
            if isinstance(n, ast.AnnAssign) and n.value is not None and _is_mutable_display(n.value, prog, ci.module) \
                    and isinstance(n.target, ast.Name):
                tgt = n.target.id
            if tgt is None:
                continue
            rebound = False
            init = ci.methods.get('__init__')
            if init is not None:
                rebound = any(isinstance(x, ast.Attribute) and isinstance(x.ctx, ast.Store) and x.attr == tgt
                              and isinstance(x.value, ast.Name) and x.value.id == 'self' for x in ast.walk(init.node))
            mutated = False
            for f in ci.methods.values():
                for x in ast.walk(f.node):
                    if isinstance(x, ast.Subscript) and isinstance(x.ctx, (ast.Store, ast.Del)) \
                            and isinstance(x.value, ast.Attribute) and x.value.attr == tgt:
                        mutated = True
                    if isinstance(x, ast.Call) and isinstance(x.func, ast.Attribute) and x.func.attr in MUTATOR_METHODS \
                            and isinstance(x.func.value, ast.Attribute) and x.func.value.attr == tgt:
                        mutated = True
                    if isinstance(x, ast.AugAssign) and isinstance(x.target, ast.Attribute) and x.target.attr == tgt:
                        mutated = True
            if mutated and not rebound:
                bad = n
        obs.append(Ob('I2', '%s/no-class-level-container' % cname, bad is None,
                      'class %s binds a mutable container at class level (%s), mutates it through its instances and '
                      'never gives an instance its own: it is one object shared by every instance in the process, so '
                      'state of one cache/deque/index leaks into another' %
                      (cname, ast.unparse(bad)[:60] if bad is not None else ''),
                      'diskcache/%s.py:%d' % (ci.module, bad.lineno) if bad is not None else
                      'diskcache/%s.py:%d' % (ci.module, ci.node.lineno)))
    # (2) no function stores an attribute on a class object
    bad = []
    nfunc = 0
    for f in prog.all_funcs():
        nfunc += 1
        for n in ast.walk(f.node):
            if isinstance(n, ast.Attribute) and isinstance(n.ctx, (ast.Store, ast.Del)):
                b = n.value
                on_class = (isinstance(b, ast.Name) and (b.id == 'cls' or (b.id in prog.classes and b.id not in
                                                                          (f.posparams + f.kwonly)))) or \
                    (isinstance(b, ast.Attribute) and b.attr == '__class__') or \
                    (isinstance(b, ast.Call) and isinstance(b.func, ast.Name) and b.func.id == 'type')
                if on_class:
                    bad.append((f, n))
            if isinstance(n, ast.Call) and isinstance(n.func, ast.Name) and n.func.id == 'setattr' and n.args:
                b = n.args[0]
                if isinstance(b, ast.Name) and (b.id == 'cls' or b.id in prog.classes):
                    bad.append((f, n))
    obs.append(Ob('I2', 'no-store-on-class-objects', not bad,
                  '%s stores `%s` on a class object at run time: the value is shared by every instance (and every '
                  'later alternate-constructor call overwrites it for all of them)' %
                  ((bad[0][0].qual, ast.unparse(bad[0][1])[:50]) if bad else ('', '')),
                  bad[0][0].loc(bad[0][1]) if bad else '', nontrivial=nfunc > 50))
    # (2b) a container that can be built around somebody else's cache (fromcache) never closes that cache, and has no
    #      finaliser that touches it: a temporary view that is garbage collected must not end the owner's transaction
    for cname, ci in sorted(prog.classes.items()):
        if 'fromcache' not in ci.methods:
            continue
        badc = None
        for mname, f in ci.methods.items():
            for n in ast.walk(f.node):
                if isinstance(n, ast.Call) and isinstance(n.func, ast.Attribute) and n.func.attr in ('close', '__exit__') \
                        and (dotted(n.func.value) or '') in ('self._cache', 'self.cache'):
                    badc = (f, n)
            if mname == '__del__':
                badc = badc or (f, f.node)
        obs.append(Ob('I2', '%s/never-closes-shared-cache' % cname, badc is None,
                      '%s%s closes (or finalises) the cache it wraps: a %s made with fromcache() shares that cache with '
                      'its owner, so dropping a temporary view closes the owner\'s connection - an open transaction is '
                      'rolled back and later statements autocommit' %
                      (cname, ('.' + badc[0].name) if badc else '', cname),
                      badc[0].loc(badc[1]) if badc else 'diskcache/%s.py:%d' % (ci.module, ci.node.lineno)))
    # (3) alternate constructors (classmethods using cls.__new__) set the same instance fields as __init__,
    #     with the same value for every field that does not come from their distinguishing argument
    for cname, ci in sorted(prog.classes.items()):
        for mname, f in sorted(ci.methods.items()):
            if 'classmethod' not in f.decorators:
                continue
            news = [n for n in ast.walk(f.node) if isinstance(n, ast.Call) and (dotted(n.func) or '').endswith('.__new__')]
            if not news:
                continue
            init = ci.methods.get('__init__')
            if init is None:
                continue

            def fields(fn, base_ok):
                out = {}
                for p in ctx.paths(fn, 'plain'):
                    if p.kind not in ('return', 'next'):
                        continue
                    for e in p.trace:
                        if e.kind == 'SETATTR' and base_ok(e.d['base']) and e.fn is fn:
                            out.setdefault(e.d['attr'], set()).add(e.d['val'])
                return out
            fi = fields(init, lambda b: b.k == 'self')
            fa = fields(f, lambda b: b.k in ('ext', 'ucall', 'mcall', 'unk', 'new', 'term', 'ret'))
            same_fields = set(fi) == set(fa)
            diff_vals = []
            if same_fields:
                for a in sorted(fi):
                    if fi[a] != fa[a] and not any(x.k in ('new', 'param') and (x.k == 'new' or x.a[0] == 'cache')
                                                  for v in (fi[a] | fa[a]) for x in values_in(v)
                                                  if x.k == 'new' or (x.k == 'param' and x.a[0] == 'cache')):
                        diff_vals.append(a)
            obs.append(Ob('I2', '%s.%s/same-fields-as-init' % (cname, mname), same_fields and not diff_vals,
                          '%s.%s builds an object with instance fields %s while __init__ sets %s%s: the object is '
                          'missing per-instance state (it falls back to class-level or stale values)' %
                          (cname, mname, sorted(fa), sorted(fi),
                           ' (different values for %s)' % diff_vals if diff_vals else ''), f.loc()))
    return obs


# ---------------------------------------------------------------------- S7
def _memo_derived(v, trace):
    """Does the value come from a lookup in a per-name memo dict of the object (self._caches[...] / .get(...))?"""
    for x in deep_values(v, trace):
        if x.k == 'item' and x.a[0].k == 'selfattr':
            return True
        if x.k == 'mcall' and x.a[0] in ('get', 'setdefault', 'pop') and isinstance(x.a[1], int):
            r = trace[x.a[1]].d.get('recv')
            if r is not None and r.k == 'selfattr':
                return True
    return False


@rule('S7', floor=3, title='named sub-containers: one handle per name, created only when the name is absent (never by truthiness)')
def s7(ctx):
    obs = []
    kind_tables = {}
    for name in ('cache', 'deque', 'index'):
        f = ctx.method('FanoutCache', name)
        ok, why, wit = True, '', None
        ncreate = nreuse = 0
        for p in ctx.paths(f, 'default'):
            if p.kind != 'return':
                continue
            tr = p.trace
            creates = [e for e in tr if (e.kind == 'NEW' and e.d['name'] in ('Cache', 'Deque', 'Index')) or
                       (e.kind == 'CALL' and e.d['name'] == 'fromcache')]
            truthy = [e for e in tr if e.kind == 'TEST' and _plain_truth(e.d['val']) is not None
                      and _memo_derived(_plain_truth(e.d['val']), tr)]
            if truthy:
                ok, why, wit = False, 'decides by the truthiness of the stored container (an empty Cache/Deque/Index is ' \
                    'falsy): every lookup while it is empty builds a second handle for the same name', fmt_trace(tr)
                continue
            if creates:
                ncreate += 1
                absent = any(e.kind == 'CATCH' and e.d['typ'] in ('KeyError', 'LookupError') for e in tr) or \
                    any(e.kind == 'TEST' and _absence_test(e, tr) for e in tr)
                if not absent:
                    ok, why, wit = False, 'creates a new container on a path that has not established that the name ' \
                        'is absent from the memo table', fmt_trace(tr)
                stored = [e for e in tr if e.kind == 'SETITEM' and e.d['base'].k in ('selfattr',)
                          or (e.kind == 'SETITEM' and any(x.k == 'selfattr' for x in values_in(e.d['base'])))]
                if not stored:
                    ok, why, wit = False, 'creates a container without storing it under its name', fmt_trace(tr)
                # ... in the very table that was consulted
                looked = set()
                for e in tr:
                    vals = []
                    if e.kind == 'RAISE' and e.d.get('at') == 'subscript':
                        vals = [y for y in _subscript_bases(e.node)]
                    elif e.kind == 'TEST':
                        vals = [x.a[1] for x in values_in(e.d['val']) if x.k == 'selfattr']
                    elif e.kind == 'MCALL' and e.d['name'] in ('get',) and e.d.get('recv') is not None \
                            and e.d['recv'].k == 'selfattr':
                        vals = [e.d['recv'].a[1]]
                    looked.update(vals)
                tables = {x.a[1] for e in stored for x in values_in(e.d['base']) if x.k == 'selfattr'}
                if looked and tables and not (tables & looked):
                    ok, why, wit = False, 'stores the new container in %s although it looked the name up in %s: the ' \
                        'next lookup misses it (and another kind of container finds it)' % (sorted(tables), sorted(looked)), \
                        fmt_trace(tr)
            else:
                nreuse += 1
                if not _memo_derived(p.outcome[1], tr):
                    ok, why, wit = False, 'returns something other than the stored container', fmt_trace(tr)
        obs.append(Ob('S7', 'FanoutCache.%s/one-handle-per-name' % name, ok and ncreate > 0 and nreuse > 0,
                      'FanoutCache.%s %s' % (name, why or 'has no create path or no reuse path'), f.loc(), wit))
        # which table, and which key, the new container is stored under
        for p in ctx.paths(f, 'default'):
            for e in p.trace:
                if e.kind == 'SETITEM' and any(x.k == 'selfattr' for x in values_in(e.d['base'])):
                    tab = sorted(x.a[1] for x in values_in(e.d['base']) if x.k == 'selfattr')
                    key = e.d.get('idx')
                    kinds = tuple(sorted(str(x.val) for x in (values_in(key) if key is not None else []) if x.is_const))
                    kind_tables.setdefault(name, set()).add((tuple(tab), kinds))
    # the container directory stays below the cache directory: os.path.join restarts at an absolute component, so a
    # caller-supplied name may reach it only as pieces of a split on '/' (a piece cannot be absolute) or stripped of
    # leading separators
    for name in ('cache', 'deque', 'index'):
        f = ctx.method('FanoutCache', name)
        bad, njoin = None, 0
        for p in ctx.paths(f, 'default'):
            for e in p.trace:
                if e.kind == 'EXT' and e.d['name'] == 'os.path.join' and e.d['args'] and \
                        any(x.k == 'selfattr' for x in values_in(e.d['args'][0])):
                    njoin += 1
                    for a in e.d['args'][1:]:
                        if not _join_piece_relative(a, p.trace):
                            bad = (e, a)
        obs.append(Ob('S7', 'FanoutCache.%s/directory-below-cache-directory' % name, bad is None and njoin > 0,
                      'FanoutCache.%s joins the caller-supplied name to the cache directory as %s: a name with a leading '
                      'separator makes os.path.join discard the cache directory and the kind prefix, so containers of '
                      'different kinds (and of different caches) share one database outside the cache directory'
                      % (name, bad[1] if bad else '<no os.path.join on self._directory found>'),
                      bad[0].loc() if bad else f.loc()))
    # the three kinds do not share entries: different tables, or keys that include the kind
    clash = None
    names = sorted(kind_tables)
    for i, a in enumerate(names):
        for b in names[i + 1:]:
            if kind_tables[a] & kind_tables[b]:
                clash = (a, b, sorted(kind_tables[a] & kind_tables[b]))
    obs.append(Ob('S7', 'FanoutCache/kinds-do-not-share-entries', clash is None and len(kind_tables) == 3,
                  'the named caches, deques and indexes are memoised in the same table under the same key (%s): '
                  'asking for a deque called like an existing index returns the index' % (clash,),
                  ctx.method('FanoutCache', 'cache').loc()))
    return obs


def _join_piece_relative(a, tr):
    """A non-first os.path.join argument that cannot be an absolute path whatever the caller passes."""
    if a.is_const:
        return isinstance(a.val, str) and not a.val.startswith(('/', '\\'))
    inner = a.a[0] if a.k == 'star' else a
    if inner.k == 'tuple':
        return all(_join_piece_relative(x, tr) for x in inner.a[0])
    if not any(x.k == 'param' for x in deep_values(inner, tr)):
        return True
    if inner.k == 'mcall' and isinstance(inner.a[1], int):
        ev = tr[inner.a[1]]
        args = ev.d['args']
        sep_arg = bool(args) and args[0].is_const and isinstance(args[0].val, str) and '/' in args[0].val
        if a.k == 'star' and inner.a[0] in ('split', 'rsplit') and sep_arg and args[0].val == '/':
            return True
        if a.k != 'star' and inner.a[0] in ('lstrip', 'strip') and sep_arg:
            return True
    return False


def _subscript_bases(node):
    """Attribute names of `self.<attr>[...]` / `<alias>[...]` subscripts in an expression (for KeyError lookups)."""
    out = []
    for n in ast.walk(node):
        if isinstance(n, ast.Subscript) and isinstance(n.value, ast.Attribute) and isinstance(n.value.value, ast.Name) \
                and n.value.value.id == 'self':
            out.append(n.value.attr)
    return out


def _plain_truth(v):
    """The value whose bare truthiness a TEST decides on (None if the test is a comparison)."""
    while v.k == 'not':
        v = v.a[0]
    if v.k in ('cmp', 'const', 'boolop'):
        return None
    return v


def _absence_test(e, tr):
    v = e.d['val']
    while v.k == 'not':
        v = v.a[0]
    if v.k != 'cmp' or len(v.a[0]) != 1:
        return False
    op = v.a[0][0]
    a, b = v.a[1]
    if op in ('In', 'NotIn'):
        return b.k == 'selfattr' or any(x.k == 'selfattr' for x in values_in(b))
    if op in ('Is', 'IsNot', 'Eq', 'NotEq'):
        other, val = (b, a) if _memo_derived(a, tr) else (a, b)
        if not _memo_derived(val, tr):
            return False
        return (other.is_const and other.val is None) or other.k in ('modconst', 'global')
    return False


# ---------------------------------------------------------------------- M5
@rule('M5', floor=3, title="the wrapper's own __cache_key__ is assigned after the wrapped function's metadata is copied")
def m5(ctx):
    """functools.update_wrapper copies func.__dict__ over the wrapper: applied after `wrapper.__cache_key__ = ...`
    it replaces the wrapper's key builder with the one of an already-memoized inner function."""
    obs = []
    n = 0
    for f in ctx.prog.all_funcs():
        sets = [m for m in ast.walk(f.node) if isinstance(m, (ast.Assign,)) and any(
            isinstance(t, ast.Attribute) and t.attr == '__cache_key__' for t in m.targets)]
        own = [m for m in sets if _owner(f, m) is f]
        if not own:
            continue
        n += 1
        first = min(m.lineno for m in own)
        late = [m for m in ast.walk(f.node) if isinstance(m, ast.Call) and _owner(f, m) is f and
                ((dotted(m.func) or '').split('.')[-1] == 'update_wrapper' or
                 (isinstance(m.func, ast.Call) and (dotted(m.func.func) or '').split('.')[-1] == 'wraps'))
                and m.lineno > first]
        obs.append(Ob('M5', '%s/key-builder-after-metadata-copy' % f.qual, not late,
                      'functools.update_wrapper/wraps is applied after the wrapper received its __cache_key__: the copy '
                      'of func.__dict__ overwrites it when the function is already memoized, so the outer wrapper builds '
                      'the inner function\'s keys and the two share (and overwrite) entries', f.loc(late[0]) if late
                      else f.loc()))
    if n == 0:
        raise AnalysisError('M5: no function assigns __cache_key__')
    return obs


def _owner(f, node):
    """Innermost function of f's subtree containing node (f itself or a nested def)."""
    best = f
    for g in ast.walk(f.node):
        if isinstance(g, (ast.FunctionDef, ast.AsyncFunctionDef, ast.Lambda)) and g is not f.node:
            if any(x is node for x in ast.walk(g)):
                return None
    return best


# ---------------------------------------------------------------------- D5 / D6
@rule('D5', floor=2, title='DjangoCache.memoize: __cache_key__ is the user-level key; the adapter methods apply make_key exactly once')
def d5(ctx):
    obs = []
    kf = ctx.func('djangocache.DjangoCache.memoize.<locals>.decorator.<locals>.__cache_key__')
    wf = ctx.func('djangocache.DjangoCache.memoize.<locals>.decorator.<locals>.wrapper')
    bad = None
    for p in ctx.paths(kf, 'plain'):
        for e in p.trace:
            if e.kind == 'CALL' and any(t.name == 'make_key' for t in e.d['targets']) or \
                    (e.kind in ('MCALL', 'UCALL') and e.d.get('name') == 'make_key'):
                bad = e
    obs.append(Ob('D5', 'memoize/__cache_key__-is-user-level', bad is None,
                  '__cache_key__ applies make_key itself: the documented use cache.get/delete/touch(f.__cache_key__(x)) '
                  'goes through make_key a second time and never finds the memoized entry (invalidation silently fails)',
                  kf.loc(bad.node) if bad is not None else kf.loc()))
    ok, n, wit = True, 0, None
    for p in ctx.paths(wf, 'plain'):
        for e in p.trace:
            if e.kind == 'CALL' and e.d['name'] in ('get', 'set') and not e.d.get('inlined'):
                n += 1
                if not all(t.cls == 'DjangoCache' for t in e.d['targets']):
                    ok, wit = False, fmt_trace(p.trace)
    # lookup and store use the same version (the decorator's `version` argument)
    okv, nv = True, 0
    for p in ctx.paths(wf, 'plain'):
        vers = []
        for e in p.trace:
            if e.kind == 'CALL' and e.d['name'] in ('get', 'set') and not e.d.get('inlined') \
                    and all(t.cls == 'DjangoCache' for t in e.d['targets']):
                t = e.d['targets'][0]
                v = e.d['kwargs'].get('version')
                if v is None and 'version' in t.params:
                    i = t.params.index('version')
                    v = e.d['args'][i] if i < len(e.d['args']) else None
                vers.append(v)
        if vers:
            nv += 1
            if any(v is None or v != vers[0] for v in vers) or not (vers[0].k == 'free' and vers[0].a[0] == 'version'):
                okv = False
    obs.append(Ob('D5', 'memoize/one-version', okv and nv > 0,
                  'the memoize wrapper does not pass the decorator\'s `version` to both its lookup and its store: '
                  'memoize(version=N) never hits and its results leak into another version\'s key space', wf.loc()))
    obs.append(Ob('D5', 'memoize/wrapper-uses-adapter-methods', ok and n >= 2,
                  'the memoize wrapper bypasses DjangoCache.get/set (which apply make_key and the timeout conversion '
                  'once): keys seen by the wrapper and by callers of the cache API differ', wf.loc(), wit))
    return obs


MUTATORS = {'pop', 'popitem', 'update', 'setdefault', 'clear', '__setitem__', '__delitem__', 'append', 'extend',
            'remove', 'insert', 'sort', 'reverse'}


@rule('D6', floor=1, title='DjangoCache.__init__ does not mutate the configuration mapping Django passes in')
def d6(ctx):
    f = ctx.method('DjangoCache', '__init__')
    bad, n = None, 0
    for p in ctx.paths(f, 'plain'):
        for e in p.trace:
            n += 1
            recv = None
            if e.kind == 'MCALL' and e.d['name'] in MUTATORS:
                recv = e.d.get('recv')
            elif e.kind in ('SETITEM', 'DELITEM'):
                recv = e.d.get('base')
            if recv is None:
                continue
            if any(x.k == 'param' and x.a[0] == 'params' for x in deep_values(recv, p.trace)):
                # a private copy is fine: dict(x) / x.copy() / {**x}
                if any(x.k == 'mcall' and x.a[0] == 'copy' or (x.k == 'term' and x.a[0] == 'dict') or x.k == 'merge'
                       for x in deep_values(recv, p.trace)):
                    continue
                bad = e
    return [Ob('D6', 'DjangoCache.__init__/params-not-mutated', bad is None and n > 0,
               'DjangoCache.__init__ mutates the mapping it was configured with (%s): Django passes the same OPTIONS dict '
               'to the backend instance of every thread, so the first instance changes the configuration of all later '
               'ones (e.g. a popped `disk` makes them fall back to the default serializer and see different data)' %
               (ast.unparse(bad.node)[:60] if bad is not None else ''), f.loc(bad.node) if bad is not None else f.loc())]


@rule('D7', floor=3, title='DjangoCache.__init__ reads each FanoutCache argument from its own configuration key')
def d7(ctx):
    """SHARDS -> shards, DATABASE_TIMEOUT -> timeout (the SQLite lock timeout, not Django's item TIMEOUT),
    OPTIONS -> settings."""
    f = ctx.method('DjangoCache', '__init__')
    want = {'shards': 'SHARDS', 'timeout': 'DATABASE_TIMEOUT', '**': 'OPTIONS'}
    got = {}
    for p in ctx.paths(f, 'plain'):
        for e in p.trace:
            if e.kind == 'NEW' and e.d['name'] == 'FanoutCache':
                fc = ctx.method('FanoutCache', '__init__')
                bound = {}
                for i, a in enumerate(e.d['args']):
                    if i < len(fc.params):
                        bound[fc.params[i]] = a
                bound.update(e.d['kwargs'])
                if e.d.get('starkw') is not None:
                    bound['**'] = e.d['starkw']
                for name, v in bound.items():
                    keys = set()
                    for x in deep_values(v, p.trace):
                        if x.k == 'mcall' and x.a[0] in ('get', 'pop', '__getitem__') and isinstance(x.a[1], int):
                            ev = p.trace[x.a[1]]
                            r = ev.d.get('recv')
                            if r is not None and r.k == 'param' and ev.d['args'] and ev.d['args'][0].is_const:
                                keys.add(ev.d['args'][0].val)
                        if x.k == 'item' and x.a[0].k == 'param' and x.a[1].is_const:
                            keys.add(x.a[1].val)
                    got[name] = keys
    obs = []
    for name, key in sorted(want.items()):
        obs.append(Ob('D7', 'DjangoCache.__init__/%s<-%s' % (name.strip('*') or 'settings', key), got.get(name) == {key},
                      'FanoutCache(%s=...) is configured from %s instead of params[%r]: e.g. the SQLite lock timeout '
                      'taken from Django\'s item TIMEOUT makes writes block for minutes (or makes TIMEOUT=None crash)' %
                      (name, sorted(got.get(name) or []), key), f.loc()))
    return obs
