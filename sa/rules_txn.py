"""T rules: the transaction context manager against its protocol."""
from .framework import rule, Ob, fmt_trace, sql_events, call_events, values_in
from .values import V


def _mgr(ctx):
    return ctx.prog.roles['txn_manager']


def _begin_ok(trace):
    """Indices of BEGIN statements that completed (not followed by their own busy raise)."""
    ok = []
    for i, ev in enumerate(trace):
        if ev.kind == 'SQL' and ev.d['stmt'] is not None and ev.d['stmt'].kind == 'begin':
            nxt = trace[i + 1] if i + 1 < len(trace) else None
            if nxt is not None and nxt.kind == 'RAISE' and nxt.d.get('at') == 'begin':
                continue
            ok.append(i)
    return ok


def _yields(trace):
    return [i for i, ev in enumerate(trace) if ev.kind == 'YIELD']


def _yield_raised(trace):
    return any(ev.kind == 'RAISE' and ev.d.get('at') == 'yield' for ev in trace)


def _is_ident(v):
    return v.k == 'ext' and v.a[0] == 'threading.get_ident'


@rule('T1', floor=1, title='transaction begins by taking the write lock and nothing more (BEGIN IMMEDIATE)')
def t1(ctx):
    f = _mgr(ctx)
    obs = []
    seen = set()
    for p in ctx.paths(f, 'manager'):
        for ev in sql_events(p.trace, 'begin'):
            if ev.line in seen:
                continue
            seen.add(ev.line)
            mode = ev.d['stmt'].begin_mode
            obs.append(Ob('T1', 'begin-mode', mode == 'IMMEDIATE',
                          'BEGIN mode is %s; %s' % (mode, 'a deferred BEGIN lets two read-modify-write operations both '
                                                    'pass their SELECT before either takes the write lock'
                                                    if mode != 'EXCLUSIVE' else
                                                    'an exclusive BEGIN also locks out readers whenever the journal mode '
                                                    'is not WAL (sqlite_journal_mode is a supported setting): lookups '
                                                    'during a transaction fail with a raw OperationalError although '
                                                    'reads are promised to stay possible'), f.loc(ev.node)))
    # every path that reaches the yield without joining must have executed a BEGIN through a SQL executor
    return obs


@rule('T2', floor=5, title='nesting only for the owner thread; owner recorded after BEGIN, cleared at exit')
def t2(ctx):
    f = _mgr(ctx)
    paths = [p for p in ctx.paths(f, 'manager') if p.kind != 'cut']
    obs = []
    owner_attrs = set()
    for p in paths:
        for i in _begin_ok(p.trace):
            for ev in p.trace[i + 1:]:
                if ev.kind == 'YIELD':
                    break
                if ev.kind == 'SETATTR' and ev.d['base'].k == 'self' and _is_ident(ev.d['val']):
                    owner_attrs.add(ev.d['attr'])
    ok_b = True
    wit_b = []
    ok_a = True
    wit_a = []
    ok_c = True
    wit_c = []
    n_nested = n_outer = 0
    for p in paths:
        ys = _yields(p.trace)
        if not ys:
            continue
        y = ys[0]
        begins = [i for i in _begin_ok(p.trace) if i < y]
        if not begins:
            n_nested += 1
            # joined an open transaction: must be under `ident == self.<owner>` assumed true
            good = False
            for ev in p.trace[:y]:
                if ev.kind == 'TEST' and ev.d['val'].k == 'cmp':
                    ops, vals = ev.d['val'].a
                    if len(ops) == 1 and ops[0] in ('Eq', 'NotEq') and len(vals) == 2:
                        a, b = vals
                        want = ev.d['truth'] if ops[0] == 'Eq' else (not ev.d['truth'])
                        pair_ok = (_is_ident(a) and b.k == 'selfattr' and b.a[1] in owner_attrs) or \
                                  (_is_ident(b) and a.k == 'selfattr' and a.a[1] in owner_attrs)
                        if pair_ok and want:
                            good = True
            if not good:
                ok_a = False
                wit_a = fmt_trace(p.trace)
        else:
            n_outer += 1
            b = begins[-1]
            setown = [ev for ev in p.trace[b:y] if ev.kind == 'SETATTR' and ev.d['attr'] in owner_attrs
                      and _is_ident(ev.d['val'])]
            if not setown:
                ok_b = False
                wit_b = fmt_trace(p.trace)
            cleared = [ev for ev in p.trace[y:] if ev.kind == 'SETATTR' and ev.d['attr'] in owner_attrs
                       and ev.d['val'].is_const and ev.d['val'].val is None]
            if not cleared:
                ok_c = False
                wit_c = fmt_trace(p.trace)
    # the owner field is cleared BEFORE the statement that ends the transaction (which may raise)
    ok_d, wit_d = True, None
    for p in paths:
        ys = _yields(p.trace)
        if not ys:
            continue
        y = ys[0]
        if not [i for i in _begin_ok(p.trace) if i < y]:
            continue
        ends = [e for e in p.trace[y:] if e.kind == 'SQL' and e.d['stmt'] is not None and
                e.d['stmt'].kind in ('commit', 'rollback')]
        clears = [e for e in p.trace[y:] if e.kind == 'SETATTR' and e.d['attr'] in owner_attrs
                  and e.d['val'].is_const and e.d['val'].val is None]
        if ends and (not clears or clears[0].seq > ends[0].seq):
            ok_d = False
            wit_d = fmt_trace(p.trace)
    # nobody but the manager (and the constructor) assigns the owner field
    import ast as _ast
    writers = []
    from .model import walk_shallow as _ws, dotted as _dotted
    # private helper methods of the manager (called by it, and by nobody else) count as the manager
    helpers = set()
    work = [f]
    while work:
        h = work.pop()
        for n in _ast.walk(h.node):
            if isinstance(n, _ast.Call) and (_dotted(n.func) or '').startswith('self._'):
                m = ctx.prog.classes['Cache'].methods.get(_dotted(n.func)[5:])
                if m is not None and m not in helpers and m is not f and not m.is_property and not m.is_contextmanager:
                    helpers.add(m)
                    work.append(m)
    for h in list(helpers):
        for g in ctx.prog.all_funcs():
            if g is f or g in helpers or g.qual.startswith(f.qual + '.<locals>.'):
                continue
            if any(isinstance(n, _ast.Attribute) and n.attr == h.name for n in _ast.walk(g.node)):
                helpers.discard(h)      # reachable from elsewhere: judged as an ordinary function
    for g in ctx.prog.all_funcs():
        if g.module != 'core' or g is f or g.name == '__init__' or g.qual.startswith(f.qual + '.<locals>.') \
                or g in helpers:
            continue
        for n in _ws(g.node):
            if isinstance(n, _ast.Attribute) and isinstance(n.ctx, (_ast.Store, _ast.Del)) and n.attr in owner_attrs:
                writers.append((g, n))
            if isinstance(n, _ast.Call) and getattr(n.func, 'id', '') in ('setattr', 'delattr') and len(n.args) > 1 \
                    and isinstance(n.args[1], _ast.Constant) and n.args[1].value in owner_attrs:
                writers.append((g, n))
    loc = f.loc()
    obs.append(Ob('T2', 'owner-cleared-before-end-statement', ok_d and n_outer > 0,
                  'the owner field is cleared only after COMMIT/ROLLBACK: if that statement raises (I/O error, busy), '
                  'the field stays set and every later operation of the thread joins a transaction that does not '
                  'exist (no BEGIN, no lock)', loc, wit_d))
    obs.append(Ob('T2', 'owner-written-only-by-manager', not writers,
                  'the owner field of the open transaction is assigned outside the transaction manager (%s): another '
                  'thread can reset it while the owner is inside its block, which then re-BEGINs or lets others join'
                  % ', '.join(sorted({g.qual for g, _ in writers})), writers[0][0].loc(writers[0][1]) if writers else loc))
    obs.append(Ob('T2', 'join-only-owner', ok_a and n_nested > 0 and bool(owner_attrs),
                  'a path reaches the yield without BEGIN and without the test threading.get_ident() == owner '
                  'field being true: another thread would join the open transaction', loc, wit_a))
    obs.append(Ob('T2', 'owner-set-after-begin', ok_b and n_outer > 0,
                  'after a successful BEGIN the owner field is not set to the thread ident before the yield',
                  loc, wit_b))
    obs.append(Ob('T2', 'owner-cleared-at-exit', ok_c and n_outer > 0,
                  'an exit path of the outermost block does not clear the owner field', loc, wit_c))
    return obs


@rule('T3', floor=4, title='exit protocol: one yield; COMMIT xor ROLLBACK+re-raise on every path after BEGIN')
def t3(ctx):
    f = _mgr(ctx)
    paths = [p for p in ctx.paths(f, 'manager') if p.kind != 'cut']
    res = {'one-yield': (True, []), 'commit-on-success': (True, []), 'rollback-on-exception': (True, []),
           'exception-propagates': (True, []), 'nested-no-commit': (True, [])}
    n = {'succ': 0, 'exc': 0}

    def fail(k, p):
        res[k] = (False, fmt_trace(p.trace))
    for p in paths:
        ys = _yields(p.trace)
        timeout_exit = p.kind == 'raise' and not ys
        if timeout_exit:
            continue
        if len(ys) != 1:
            fail('one-yield', p)
            continue
        y = ys[0]
        begun = any(i < y for i in _begin_ok(p.trace))
        after = p.trace[y:]
        commits = [ev for ev in sql_events(after, 'commit')]
        rollbacks = [ev for ev in sql_events(after, 'rollback')]
        if _yield_raised(p.trace):
            n['exc'] += 1
            if p.kind != 'raise':
                fail('exception-propagates', p)
            if begun and (len(rollbacks) != 1 or commits):
                fail('rollback-on-exception', p)
            if not begun and (rollbacks or commits):
                fail('nested-no-commit', p)
        else:
            n['succ'] += 1
            if begun and (len(commits) != 1 or rollbacks):
                fail('commit-on-success', p)
            if not begun and (rollbacks or commits):
                fail('nested-no-commit', p)
            if p.kind == 'raise':
                fail('commit-on-success', p)
    msgs = {
        'one-yield': 'the manager does not yield exactly once on some path',
        'commit-on-success': 'a normal exit of the outermost block does not execute exactly one COMMIT',
        'rollback-on-exception': 'an exception in the outermost block (any BaseException) does not execute exactly '
                                 'one ROLLBACK: the write lock stays held / partial effects commit',
        'exception-propagates': 'an exception raised in the block is swallowed by the manager',
        'nested-no-commit': 'a nested (joined) block commits or rolls back the enclosing transaction',
    }
    obs = []
    for k, (ok, wit) in res.items():
        if k in ('rollback-on-exception', 'exception-propagates') and n['exc'] == 0:
            ok = False
        if k == 'commit-on-success' and n['succ'] == 0:
            ok = False
        obs.append(Ob('T3', k, ok, msgs[k], f.loc(), wit))
    return obs


@rule('T4', floor=3, title='busy BEGIN: retry loops back, otherwise release the new file and raise Timeout')
def t4(ctx):
    f = _mgr(ctx)
    paths = ctx.paths(f, 'manager')
    ok_retry, ok_release, ok_timeout, ok_nothing_else = True, True, True, True
    wit = {}
    n_busy = 0
    for p in paths:
        tr = p.trace
        for i, ev in enumerate(tr):
            if not (ev.kind == 'RAISE' and ev.d.get('at') == 'begin'):
                continue
            n_busy += 1
            # segment until next BEGIN / end
            seg = []
            for ev2 in tr[i + 1:]:
                if ev2.kind == 'SQL' and ev2.d['stmt'] is not None and ev2.d['stmt'].kind == 'begin':
                    break
                seg.append(ev2)
            caught = any(e.kind == 'CATCH' for e in seg[:1])
            if not caught:
                ok_timeout = False
                wit['t'] = fmt_trace(tr)
                continue
            retry_true = any(e.kind == 'TEST' and e.d['val'].k == 'param' and e.d['val'].a[0] == 'retry'
                             and e.d['truth'] for e in seg)
            retry_false = any(e.kind == 'TEST' and e.d['val'].k == 'param' and e.d['val'].a[0] == 'retry'
                              and not e.d['truth'] for e in seg)
            looped = any(e.kind == 'SQL' for e in tr[i + 1:i + 1 + len(seg) + 1] if e not in seg) or \
                (len(tr) > i + 1 + len(seg)) or p.kind == 'cut'
            if retry_true:
                # must loop back to BEGIN (or be cut by the unrolling bound), with no side effect in between
                if not looped or any(e.kind in ('CALL', 'SQL', 'EXT') for e in seg if e.kind != 'TEST'
                                     and not (e.kind == 'EXT' and e.d['name'].startswith('time.'))):
                    ok_retry = False
                    wit['r'] = fmt_trace(tr)
            elif retry_false:
                if p.raised() != 'Timeout' or len(tr) != i + 1 + len(seg):
                    ok_timeout = False
                    wit['t'] = fmt_trace(tr)
                fn_notnone = [e for e in seg if e.kind == 'TEST' and any(
                    x.k == 'param' and x.a[0] == 'filename' for x in values_in(e.d['val']))]
                removes = [e for e in call_events(seg, 'Disk.remove')]
                has_file = any((e.d['truth'] if _isnot_none(e) else not e.d['truth']) for e in fn_notnone)
                if has_file:
                    if not (len(removes) == 1 and removes[0].d['args'] and removes[0].d['args'][0].k == 'param'
                            and removes[0].d['args'][0].a[0] == 'filename'):
                        ok_release = False
                        wit['f'] = fmt_trace(tr)
                elif fn_notnone and removes:
                    ok_release = False
                    wit['f'] = fmt_trace(tr)
                elif not fn_notnone:
                    ok_release = False
                    wit['f'] = fmt_trace(tr)
                others = [e for e in seg if e.kind in ('SQL', 'EXT', 'UCALL', 'MCALL', 'SETATTR') or
                          (e.kind == 'CALL' and e not in removes)]
                if others:
                    ok_nothing_else = False
                    wit['o'] = fmt_trace(tr)
            else:
                ok_timeout = False
                wit['t'] = fmt_trace(tr)
    loc = f.loc()
    return [
        Ob('T4', 'retry-loops-to-begin', ok_retry and n_busy > 0,
           'with retry set a busy BEGIN does not simply loop back to BEGIN', loc, wit.get('r')),
        Ob('T4', 'busy-raises-timeout', ok_timeout and ok_nothing_else and n_busy > 0,
           'without retry a busy BEGIN does not end in `raise Timeout` directly (or does other work first)', loc,
           wit.get('t') or wit.get('o')),
        Ob('T4', 'busy-releases-new-file', ok_release and n_busy > 0,
           'on the busy path the caller\'s freshly written value file (the `filename` argument) is not removed '
           'exactly when it is not None: the Timeout exit leaks the file', loc, wit.get('f')),
    ]


def _isnot_none(ev):
    v = ev.d['val']
    return v.k == 'cmp' and v.a[0] == ('IsNot',)


def _deferred_list(trace):
    """The list object whose .append is handed out by the yield."""
    for ev in trace:
        if ev.kind == 'YIELD':
            for x in values_in(ev.d['value']):
                if x.k == 'attr' and x.a[1] == 'append' and x.a[0].k == 'list':
                    return x.a[0].a[1]   # list identity
    return None


def _t5(ctx, nested):
    f = _mgr(ctx)
    paths = [p for p in ctx.paths(f, 'manager') if p.kind != 'cut']
    n = 0
    bad = None
    has_list = False
    for p in paths:
        ys = _yields(p.trace)
        if len(ys) != 1:
            continue
        y = ys[0]
        lid = _deferred_list(p.trace)
        if lid is None:
            # the cleanup callable may be a closure: take the list the removal loop iterates
            for ev in p.trace:
                if ev.kind == 'FOR' and ev.d['iter'].k == 'list':
                    lid = ev.d['iter'].a[1]
        if lid is None:
            continue
        has_list = True
        begun = any(i < y for i in _begin_ok(p.trace))
        if begun == nested:
            continue
        for i, ev in enumerate(p.trace):
            if ev.kind == 'CALL' and any(t.qual.endswith('Disk.remove') for t in ev.d['targets']):
                arg = ev.d['args'][0] if ev.d['args'] else None
                if arg is not None and arg.k == 'elem' and arg.a[0].k == 'list' and arg.a[0].a[1] == lid:
                    n += 1
                    committed = any(e.kind == 'SQL' and e.d['stmt'] is not None and e.d['stmt'].kind == 'commit'
                                    for e in p.trace[y:i])
                    if not committed or _yield_raised(p.trace):
                        bad = p
    return f, n, bad, has_list


@rule('T5a', floor=1, title='deferred file removals of the outermost block run only after its COMMIT')
def t5a(ctx):
    f, n, bad, has_list = _t5(ctx, nested=False)
    return [Ob('T5a', 'outermost-remove-after-commit', bad is None and n > 0,
               'a replaced/removed value file is deleted before (or without) the COMMIT that unreferences it: a kill '
               'or rollback at that point leaves a committed row naming a missing file'
               if bad else 'no deferred removal found after COMMIT (matcher blind)', f.loc(),
               fmt_trace(bad.trace) if bad else None)]


@rule('T5b', floor=1, title='a nested block must not remove files before the enclosing transaction commits')
def t5b(ctx):
    f, n, bad, has_list = _t5(ctx, nested=True)
    return [Ob('T5b', 'nested-exit-removes-deferred-files', bad is None and has_list,
               'when the block is nested (no BEGIN/COMMIT of its own) the files queued for removal are deleted at '
               'the inner exit although the enclosing transaction can still roll back: the rows come back, the '
               'files do not', f.loc(), fmt_trace(bad.trace) if bad else None)]


@rule('T6', floor=5, title='public transact wrappers: forward retry, yield once inside the block, cover every shard')
def t6(ctx):
    obs = []
    prog = ctx.prog
    # every contextmanager generator yields exactly once per path
    for fn in prog.all_funcs():
        if not fn.is_contextmanager or fn is _mgr(ctx):
            continue
        paths = [p for p in ctx.paths(fn, 'plain') if p.kind != 'cut']
        ok = True
        wit = None
        inside = True
        fwd = True
        for p in paths:
            if p.kind == 'raise' and not _yields(p.trace):
                continue
            ys = _yields(p.trace)
            if len(ys) != 1:
                ok = False
                wit = fmt_trace(p.trace)
                continue
            yev = p.trace[ys[0]]
            enters = [e for e in p.trace[:ys[0]] if e.kind == 'TXN_ENTER']
            if fn.cls in ('Cache', 'Deque', 'Index'):
                if not yev.txn or not enters:
                    inside = False
                    wit = fmt_trace(p.trace)
                for e in enters:
                    r = e.d['retry']
                    if fn.cls == 'Cache':
                        if not (r.k == 'param' and r.a[0] == 'retry'):
                            fwd = False
                            wit = fmt_trace(p.trace)
                    elif not (r.is_const and r.val is True):
                        fwd = False
                        wit = fmt_trace(p.trace)
        obs.append(Ob('T6', '%s.%s/one-yield' % (fn.cls, fn.name), ok and bool(paths),
                      'context manager does not yield exactly once on every path', fn.loc(), wit))
        if fn.cls in ('Cache', 'Deque', 'Index'):
            obs.append(Ob('T6', '%s.%s/yield-inside-block' % (fn.cls, fn.name), inside,
                          'the yield is not inside the transaction block of the underlying cache', fn.loc(), wit))
            obs.append(Ob('T6', '%s.%s/retry' % (fn.cls, fn.name), fwd,
                          'retry is not forwarded (Cache) / not the constant True (Deque, Index)', fn.loc(), wit))
    # FanoutCache.transact: every shard, in order, through one ExitStack, yield inside it
    fn = ctx.method('FanoutCache', 'transact')
    ok = True
    wit = None
    npaths = 0
    for p in ctx.paths(fn, 'plain'):
        if p.kind in ('cut', 'raise'):
            continue
        ys = _yields(p.trace)
        if len(ys) != 1:
            ok = False
            continue
        fors = [e for e in p.trace if e.kind == 'FOR' and e.d['it'] == 1]
        if not fors:
            # yielding without entering any shard is only legitimate when self._shards is empty
            zero = [e for e in p.trace[:ys[0]] if e.kind == 'FOR' and e.d['it'] == 0 and e.d['iter'].k == 'selfattr'
                    and e.d['iter'].a[1] == '_shards']
            if not zero:
                ok = False
                wit = fmt_trace(p.trace)
            continue
        npaths += 1
        y = ys[0]
        stack_enter = [e for e in p.trace[:y] if e.kind == 'WITH_ENTER' and e.d['ctx'].k == 'ext'
                       and e.d['ctx'].a[0].endswith('ExitStack')]
        stack_exit = [i for i, e in enumerate(p.trace) if e.kind == 'WITH_EXIT' and stack_enter
                      and e.d.get('enter') == stack_enter[0].seq]
        good = bool(stack_enter) and bool(stack_exit) and stack_exit[0] > y
        it = fors[0].d['iter']
        if not (it.k == 'selfattr' and it.a[1] == '_shards'):
            good = False
        calls = [e for e in call_events(p.trace[:y], 'Cache.transact')]
        if not calls:
            good = False
        for c in calls:
            r = c.d['kwargs'].get('retry') or (c.d['args'][0] if c.d['args'] else None)
            if r is None or not (r.is_const and r.val is True):
                good = False
            if not (c.d['recv'].k == 'elem' and c.d['recv'].a[0] == it):
                good = False
            # its result must be entered on the stack
            entered = [e for e in p.trace[c.seq:y] if e.kind == 'MCALL' and e.d['name'] == 'enter_context'
                       and e.d['args'] and e.d['args'][0].k == 'ret' and e.d['args'][0].a[0] == c.seq]
            if not entered:
                good = False
        # the yield must come after the loop
        forend = [i for i, e in enumerate(p.trace) if e.kind == 'FOREND']
        if not forend or forend[-1] > y:
            good = False
        if not good:
            ok = False
            wit = fmt_trace(p.trace)
    obs.append(Ob('T6', 'FanoutCache.transact/all-shards-one-stack', ok and npaths > 0,
                  'FanoutCache.transact does not enter shard.transact(retry=True) for every shard of self._shards '
                  'on one ExitStack and yield inside it', fn.loc(), wit))
    return obs
