"""Checker self-test (DESIGN §8): run the rules on scratch copies of the
package with one edit applied.  Sensitivity evidence only - the result never
becomes a verdict about /repo.  Scratch copies live in a fresh temp directory
outside /repo and /verif and are removed immediately."""
import json
import os
import shutil
import sys
import tempfile
import time
from concurrent.futures import ProcessPoolExecutor

HERE = os.path.dirname(os.path.dirname(os.path.abspath(__file__)))
if HERE not in sys.path:
    sys.path.insert(0, HERE)

from sa.selftest_mutants import FIRE, QUIET, QUIET_PATCH  # noqa: E402


def _failing(ctx, rules):
    from sa.framework import RULES
    out = set()
    for rid in rules:
        for o in RULES[rid](ctx):
            if not o.ok:
                out.add('%s:%s' % (rid, o.key))
    return out


def _run_one(job):
    kind, mid, fn, old, new, rules, baseline, repo, replace_all = job
    from sa.framework import Ctx
    from sa import props  # noqa: F401  (registers rules)
    from sa.model import AnalysisError
    d = tempfile.mkdtemp(prefix='sa-selftest-')
    t0 = time.time()
    try:
        shutil.copytree(os.path.join(repo, 'diskcache'), os.path.join(d, 'diskcache'))
        if fn.startswith('AUTO:'):
            # whole-package automatic behaviour-preserving transformation (tools/auto_transform.py)
            import glob as _g
            sys.path.insert(0, os.path.join(HERE, 'tools'))
            import auto_transform as _at
            for fp in _g.glob(os.path.join(d, 'diskcache', '*.py')):
                with open(fp) as f:
                    fs = f.read()
                with open(fp, 'w') as f:
                    f.write(_at.transform(fn[5:], fs))
        elif fn == 'UNPARSE':
            # whole-package normalisation: comments dropped, layout, quoting, parentheses and line numbers changed
            import ast as _ast
            import glob as _g
            for fp in _g.glob(os.path.join(d, 'diskcache', '*.py')):
                with open(fp) as f:
                    fs = f.read()
                with open(fp, 'w') as f:
                    f.write(_ast.unparse(_ast.parse(fs)) + '\n')
        elif fn == 'PATCH':
            import subprocess
            # only the package is copied: keep the sections of the patch that touch diskcache/
            with open(old) as f:
                ptxt = f.read()
            secs, cur = [], []
            for line in ptxt.splitlines(keepends=True):
                if line.startswith('diff --git ') or (line.startswith('diff -ruN ')):
                    if cur:
                        secs.append(cur)
                    cur = []
                cur.append(line)
            if cur:
                secs.append(cur)
            kept = [sec for sec in secs if any(l.startswith(('+++ b/diskcache/', '+++ diskcache/')) for l in sec[:6])]
            if kept and len(kept) != len(secs):
                old = os.path.join(d, 'package-only.diff')
                with open(old, 'w') as f:
                    f.write(''.join(''.join(sec) for sec in kept))
            r = subprocess.run(['patch', '-p1', '-s', '-d', d, '-i', old], capture_output=True, text=True)
            if r.returncode != 0:
                return {'id': mid, 'kind': kind, 'status': 'not-applicable', 'why': 'patch does not apply to the current source'}
            for ffn, fold, fnew in (new or []):
                fp = os.path.join(d, 'diskcache', ffn)
                with open(fp) as f:
                    fs = f.read()
                if fold not in fs:
                    return {'id': mid, 'kind': kind, 'status': 'not-applicable', 'why': 'fix-up pattern not found'}
                with open(fp, 'w') as f:
                    f.write(fs.replace(fold, fnew))
        else:
            p = os.path.join(d, 'diskcache', fn)
            with open(p) as f:
                s = f.read()
            if old not in s:
                return {'id': mid, 'kind': kind, 'status': 'not-applicable', 'why': 'pattern not in current source'}
            s = s.replace(old, new) if replace_all else s.replace(old, new, 1)
            try:
                compile(s, p, 'exec')
            except SyntaxError as e:
                return {'id': mid, 'kind': kind, 'status': 'broken-mutant', 'why': str(e)}
            with open(p, 'w') as f:
                f.write(s)
        try:
            ctx = Ctx(repo=d)
            fails = _failing(ctx, rules)
        except AnalysisError as e:
            # fail-closed: the analysis refused to give a verdict (exit 2 in the real check)
            status = 'analysis-error'
            if kind == 'quiet':
                try:
                    from sa.framework import unmodelled_constructs
                    if unmodelled_constructs(Ctx(repo=d)):
                        status = 'withheld'
                except Exception:
                    pass
            return {'id': mid, 'kind': kind, 'status': status, 'why': str(e)[:200],
                    'wall_s': round(time.time() - t0, 2)}
        new_fails = sorted(fails - set(baseline))
        if kind == 'fire':
            hit = [x for x in new_fails if x.split(':')[0] in rules]
            return {'id': mid, 'kind': kind, 'status': 'caught' if hit else 'missed', 'by': hit[:4],
                    'wall_s': round(time.time() - t0, 2)}
        if new_fails:
            # the real check withholds its verdict (exit 2, ANALYSIS-ERROR) when the tree uses constructs outside the
            # modelled subset: that is a refusal, not a false alarm
            from sa.framework import unmodelled_constructs
            um = unmodelled_constructs(ctx)
            if um:
                return {'id': mid, 'kind': kind, 'status': 'withheld', 'by': new_fails[:4], 'why': um[:3],
                        'wall_s': round(time.time() - t0, 2)}
        return {'id': mid, 'kind': kind, 'status': 'quiet' if not new_fails else 'false-alarm', 'by': new_fails[:6],
                'wall_s': round(time.time() - t0, 2)}
    finally:
        shutil.rmtree(d, ignore_errors=True)


def run(rule_filter=None, jobs=None, repo=None, quiet_rules=None):
    """Run the self-test.  `rule_filter`: only mutants expected to be caught by one of these rules."""
    from sa.framework import Ctx, RULES
    from sa import props  # noqa: F401
    repo = repo or os.environ.get('VERIF_REPO', '/repo')
    allrules = sorted(RULES)
    qrules = sorted(quiet_rules) if quiet_rules else allrules
    ctx = Ctx(repo=repo)
    needed = set(qrules)
    for m in FIRE:
        if rule_filter is None or set(m[4]) & set(rule_filter):
            needed |= set(m[4])
    import glob as _glob
    for mp in _glob.glob(os.path.join(HERE, 'seeded', '*', 'meta.json')):
        with open(mp) as f:
            needed |= {r for r in (json.load(f).get('detected_by') or []) if r in RULES}
    baseline = sorted(_failing(ctx, sorted(needed)))
    work = []
    for m in FIRE:
        mid, fn, old, new, rules = m[:5]
        if rule_filter is not None and not (set(rules) & set(rule_filter)):
            continue
        work.append(('fire', mid, fn, old, new, list(rules), baseline, repo, False))
    # seeded changes written by independent sub-agents (seeded/<id>/patch.diff)
    import glob
    for mp in sorted(glob.glob(os.path.join(HERE, 'seeded', '*', 'meta.json'))):
        with open(mp) as f:
            meta = json.load(f)
        rules = meta.get('detected_by') or []
        if not rules:
            continue
        if rule_filter is not None and not (set(rules) & set(rule_filter)):
            continue
        needed_now = [r for r in rules if r in RULES]
        work.append(('fire', 'seed:' + meta['id'], 'PATCH', os.path.join(os.path.dirname(mp), 'patch.diff'), None,
                     needed_now, baseline, repo, False))
    for mid, seed_id, fixups in QUIET_PATCH:
        pf = os.path.join(HERE, 'seeded', seed_id, 'patch.diff')
        if os.path.exists(pf):
            work.append(('quiet', mid, 'PATCH', pf, fixups, qrules, baseline, repo, False))
    # behaviour-preserving refactorings written by independent sub-agents (refactors/<id>/patch.diff)
    for pf in sorted(glob.glob(os.path.join(HERE, 'refactors', '*', 'patch.diff'))):
        work.append(('quiet', 'refactor:' + os.path.basename(os.path.dirname(pf)), 'PATCH', pf, None, qrules, baseline,
                     repo, False))
    work.append(('quiet', 'normalise:ast.unparse-whole-package', 'UNPARSE', None, None, qrules, baseline, repo, False))
    for mode in ('rename', 'invert', 'reorder', 'swapcmp', 'fstring', 'ternary', 'sqlconst', 'demorgan', 'annotate', 'all'):
        work.append(('quiet', 'auto-transform:' + mode, 'AUTO:' + mode, None, None, qrules, baseline, repo, False))
    for m in QUIET:
        mid, fn, old, new = m[:4]
        work.append(('quiet', mid, fn, old, new, qrules, baseline, repo, 'helper' in mid or (len(m) > 4 and m[4] == 'all')))
    jobs = jobs or min(16, os.cpu_count() or 4)
    t0 = time.time()
    with ProcessPoolExecutor(max_workers=jobs) as ex:
        results = list(ex.map(_run_one, work))
    summary = {
        'mutants_fire': sum(1 for r in results if r['kind'] == 'fire' and r['status'] in ('caught', 'missed', 'analysis-error')),
        'caught': sum(1 for r in results if r['status'] == 'caught'),
        'refused_by_analysis_error': sum(1 for r in results if r['kind'] == 'fire' and r['status'] == 'analysis-error'),
        'missed': [r['id'] for r in results if r['status'] == 'missed'],
        'mutants_quiet': sum(1 for r in results if r['kind'] == 'quiet' and r['status'] in ('quiet', 'false-alarm', 'analysis-error', 'withheld')),
        'verdict_withheld': [r['id'] for r in results if r['status'] == 'withheld'],
        'quiet_ok': sum(1 for r in results if r['status'] == 'quiet'),
        'false_alarms': [(r['id'], r.get('by')) for r in results if r['status'] == 'false-alarm' or
                         (r['kind'] == 'quiet' and r['status'] == 'analysis-error')],
        'not_applicable': [r['id'] for r in results if r['status'] in ('not-applicable', 'broken-mutant')],
        'wall_s': round(time.time() - t0, 1),
        'results': results,
    }
    return summary


def run_for_property(pid, evidence_dir=None):
    from sa import props
    spec = props.PROPS[pid]
    rules = [r if isinstance(r, str) else r[0] for r in spec['rules']]
    s = run(rule_filter=rules, quiet_rules=rules)
    print('SELFTEST property=%s rules=%s: %d/%d breaking edits caught (%d refused with ANALYSIS-ERROR), %d/%d '
          'behaviour-preserving edits quiet, %.1fs' % (pid, ','.join(rules), s['caught'], s['mutants_fire'],
                                                      s['refused_by_analysis_error'], s['quiet_ok'],
                                                      s['mutants_quiet'], s['wall_s']))
    for m in s['missed']:
        print('SELFTEST-MISS %s (sensitivity gap of the checker, not a verdict about the repository)' % m)
    for m, by in s['false_alarms']:
        print('SELFTEST-FALSE-ALARM %s %s (checker defect, not a verdict about the repository)' % (m, by))
    for m in s.get('verdict_withheld', []):
        print('SELFTEST-WITHHELD %s (correct patch using constructs outside the modelled subset: the check refuses '
              'with ANALYSIS-ERROR instead of giving a verdict)' % m)
    evidence_dir = evidence_dir or os.path.join(HERE, 'evidence')
    p = os.path.join(evidence_dir, pid + '.json')
    if os.path.exists(p):
        with open(p) as f:
            ev = json.load(f)
        slim = dict(s)
        slim['results'] = [{k: v for k, v in r.items() if k in ('id', 'kind', 'status', 'by')} for r in s['results']]
        ev['coverage']['selftest'] = slim
        with open(p, 'w') as f:
            json.dump(ev, f, indent=1, default=str)
    return s


if __name__ == '__main__':
    flt = sys.argv[1].split(',') if len(sys.argv) > 1 and sys.argv[1] != 'all' else None
    s = run(rule_filter=flt)
    for r in s['results']:
        if r['status'] not in ('caught', 'quiet', 'withheld'):
            print(r)
    print(json.dumps({k: v for k, v in s.items() if k != 'results'}, indent=1))
