"""Small SQL parser for the subset python-diskcache uses.

Input: a statement string in which unknown pieces are hole tokens
`⟦desc⟧`.  Output: `Stmt` with kind/table/columns/where/order/limit and the
ordered list of `?` slots each tied to the column it is compared with or
assigned to.  Unknown leading keywords give kind 'unknown' (treated by rules
as "write, unknown table").
"""
import re

HOLE_L = '⟦'
HOLE_R = '⟧'


def hole(desc):
    return HOLE_L + str(desc) + HOLE_R


class SqlError(Exception):
    pass


_TOKEN = re.compile(r'''
    (?P<ws>\s+)
  | (?P<hole>⟦[^⟧]*⟧)
  | (?P<num>\d+(?:\.\d+)?)
  | (?P<id>[A-Za-z_][A-Za-z_0-9]*)
  | (?P<str>'(?:[^']|'')*'|"(?:[^"]|"")*")
  | (?P<op><=|>=|<>|!=|==|\|\||[=<>+\-*/(),;.?%])
''', re.X)

KEYWORDS = {
    'SELECT', 'FROM', 'WHERE', 'ORDER', 'BY', 'LIMIT', 'AND', 'OR', 'NOT', 'IS', 'NULL', 'IN', 'ASC', 'DESC',
    'INSERT', 'INTO', 'VALUES', 'REPLACE', 'IGNORE', 'UPDATE', 'SET', 'DELETE', 'CREATE', 'TABLE', 'INDEX',
    'TRIGGER', 'UNIQUE', 'IF', 'EXISTS', 'ON', 'AFTER', 'BEFORE', 'FOR', 'EACH', 'ROW', 'BEGIN', 'END', 'DROP',
    'PRAGMA', 'COMMIT', 'ROLLBACK', 'VACUUM', 'IMMEDIATE', 'EXCLUSIVE', 'DEFERRED', 'TRANSACTION', 'PRIMARY',
    'KEY', 'DEFAULT', 'OFFSET', 'BETWEEN', 'LIKE', 'GLOB', 'DISTINCT', 'AS',
}


def tokenize(text):
    toks = []
    pos = 0
    while pos < len(text):
        m = _TOKEN.match(text, pos)
        if not m:
            raise SqlError('cannot tokenize at %r' % text[pos:pos + 20])
        pos = m.end()
        k = m.lastgroup
        v = m.group(k)
        if k == 'ws':
            continue
        if k == 'id':
            if v.upper() in KEYWORDS:
                toks.append(('kw', v.upper()))
            else:
                toks.append(('id', v))
        elif k == 'str':
            toks.append(('str', v[1:-1]))
        elif k == 'num':
            toks.append(('num', float(v) if '.' in v else int(v)))
        elif k == 'hole':
            toks.append(('hole', v[1:-1]))
        else:
            toks.append(('op', v))
    return toks


class Stmt:
    def __init__(self, text):
        self.text = text
        self.kind = 'unknown'
        self.table = None
        self.columns = []      # select list: expr trees
        self.colnames = []     # display name per selected column (column name, or text)
        self.assigns = []      # (col, expr)
        self.where = None
        self.order = []        # (expr, 'ASC'|'DESC')
        self.limit = None
        self.insert_cols = None
        self.values = []
        self.conflict = None
        self.nparams = 0
        self.begin_mode = None
        self.pragma = None
        self.pragma_value = None
        self.name = None       # index / trigger name
        self.index_cols = []
        self.unique = False
        self.trigger_event = None
        self.trigger_body = []  # list of Stmt
        self.table_cols = []   # create table: (name, type, rest-text)
        self.holes = []
        self.subselect = None  # for DELETE ... IN (SELECT ...)
        self.partial = False
        self.error = None
        self.offset = None
        self.indexed_by = None  # INDEXED BY <name> (False: NOT INDEXED)
        self.trigger_when = None  # CREATE TRIGGER ... WHEN <expr>
        self.trigger_of = None    # CREATE TRIGGER ... UPDATE OF <cols>

    @property
    def is_write(self):
        return self.kind in ('insert', 'update', 'delete', 'unknown', 'create_table', 'create_index',
                             'create_trigger', 'drop_index', 'vacuum')

    @property
    def is_row_write(self):
        return self.kind in ('insert', 'update', 'delete', 'unknown')

    def param_slots(self):
        """List of slot descriptions in `?` order."""
        slots = {}

        def visit(e, ctx):
            if e is None:
                return
            t = e[0]
            if t == 'param':
                slots[e[1]] = ctx
            elif t in ('or', 'and'):
                visit(e[1], ctx)
                visit(e[2], ctx)
            elif t == 'not':
                visit(e[1], ctx)
            elif t == 'cmp':
                _, op, l, r = e
                if r[0] == 'param':
                    slots[r[1]] = ('cmp', colname(l), op, 'right')
                else:
                    visit(r, ctx)
                if l[0] == 'param':
                    slots[l[1]] = ('cmp', colname(r), op, 'left')
                else:
                    visit(l, ctx)
            elif t == 'isnull':
                visit(e[1], ctx)
            elif t == 'in':
                visit(e[1], ctx)
                if isinstance(e[2], Stmt):
                    for k, v in e[2].param_slots_dict().items():
                        slots[k] = ('sub',) + tuple(v)
                elif isinstance(e[2], list):
                    for x in e[2]:
                        visit(x, ('in', colname(e[1])))
            elif t == 'binop':
                visit(e[2], ctx)
                visit(e[3], ctx)
            elif t == 'func':
                for x in e[2]:
                    visit(x, ctx)

        for c in self.columns:
            visit(c, ('select',))
        for col, ex in self.assigns:
            if ex[0] == 'param':
                slots[ex[1]] = ('assign', col)
            else:
                visit(ex, ('assign-expr', col))
        if self.insert_cols is not None or self.values:
            for i, ex in enumerate(self.values):
                col = self.insert_cols[i] if self.insert_cols and i < len(self.insert_cols) else '#%d' % i
                if ex[0] == 'param':
                    slots[ex[1]] = ('value', col)
                else:
                    visit(ex, ('value-expr', col))
        visit(self.where, ('where',))
        for ex, _ in self.order:
            visit(ex, ('order',))
        if self.limit is not None:
            if self.limit[0] == 'param':
                slots[self.limit[1]] = ('limit',)
            else:
                visit(self.limit, ('limit',))
        return slots

    def param_slots_dict(self):
        return self.param_slots()

    def slots(self):
        d = self.param_slots()
        return [d.get(i, ('?',)) for i in range(self.nparams)]

    def __repr__(self):
        return '<Stmt %s %s>' % (self.kind, self.table)


def colname(e):
    if e is None:
        return None
    if e[0] == 'col':
        return e[1]
    if e[0] == 'hole':
        return HOLE_L + e[1] + HOLE_R
    return None


class Parser:
    def __init__(self, toks, counter=None):
        self.toks = toks
        self.i = 0
        self.counter = counter if counter is not None else [0]
        self.holes = []

    def peek(self, k=0):
        j = self.i + k
        return self.toks[j] if j < len(self.toks) else ('eof', None)

    def next(self):
        t = self.peek()
        self.i += 1
        return t

    def at_kw(self, *kws):
        t = self.peek()
        return t[0] == 'kw' and t[1] in kws

    def at_op(self, *ops):
        t = self.peek()
        return t[0] == 'op' and t[1] in ops

    def eat_kw(self, *kws):
        if self.at_kw(*kws):
            return self.next()[1]
        return None

    def eat_op(self, *ops):
        if self.at_op(*ops):
            return self.next()[1]
        return None

    def expect_kw(self, *kws):
        k = self.eat_kw(*kws)
        if k is None:
            raise SqlError('expected %s at %r' % ('/'.join(kws), self.peek()))
        return k

    def expect_op(self, *ops):
        k = self.eat_op(*ops)
        if k is None:
            raise SqlError('expected %s at %r' % ('/'.join(ops), self.peek()))
        return k

    def index_hint(self, st):
        """<table> INDEXED BY <index> | <table> NOT INDEXED"""
        t = self.peek()
        if t[0] == 'id' and t[1].upper() == 'INDEXED' and self.peek(1) == ('kw', 'BY'):
            self.next()
            self.next()
            st.indexed_by = self.ident()
        elif t == ('kw', 'NOT') and self.peek(1)[0] == 'id' and str(self.peek(1)[1]).upper() == 'INDEXED':
            self.next()
            self.next()
            st.indexed_by = False

    def ident(self):
        t = self.next()
        if t[0] in ('id', 'str'):
            return t[1]
        if t[0] == 'hole':
            self.holes.append(t[1])
            return HOLE_L + t[1] + HOLE_R
        if t[0] == 'kw' and t[1] in ('KEY', 'REPLACE', 'IGNORE', 'ROW', 'INDEX'):
            return t[1].lower()
        raise SqlError('expected identifier at %r' % (t,))

    # ---------------------------------------------------------- expressions
    def expr(self):
        return self.or_expr()

    def or_expr(self):
        l = self.and_expr()
        while self.eat_kw('OR'):
            r = self.and_expr()
            l = ('or', l, r)
        return l

    def and_expr(self):
        l = self.not_expr()
        while self.eat_kw('AND'):
            r = self.not_expr()
            l = ('and', l, r)
        return l

    def not_expr(self):
        if self.eat_kw('NOT'):
            return ('not', self.not_expr())
        return self.cmp_expr()

    def cmp_expr(self):
        l = self.add_expr()
        while True:
            if self.at_op('=', '==', '<', '>', '<=', '>=', '!=', '<>'):
                op = self.next()[1]
                op = {'==': '=', '<>': '!='}.get(op, op)
                r = self.add_expr()
                l = ('cmp', op, l, r)
            elif self.at_kw('IS'):
                self.next()
                neg = bool(self.eat_kw('NOT'))
                if self.eat_kw('NULL'):
                    l = ('isnull', l, neg)
                else:
                    r = self.add_expr()
                    l = ('cmp', 'is not' if neg else 'is', l, r)
            elif self.at_kw('NOT') and self.peek(1) == ('kw', 'IN'):
                self.next()
                self.next()
                l = ('not', self.in_rhs(l))
            elif self.at_kw('IN'):
                self.next()
                l = self.in_rhs(l)
            elif self.at_kw('LIKE', 'GLOB'):
                op = self.next()[1].lower()
                r = self.add_expr()
                l = ('cmp', op, l, r)
            elif self.at_kw('BETWEEN'):
                self.next()
                lo = self.add_expr()
                self.expect_kw('AND')
                hi = self.add_expr()
                l = ('and', ('cmp', '>=', l, lo), ('cmp', '<=', l, hi))
            else:
                return l

    def in_rhs(self, l):
        self.expect_op('(')
        if self.at_kw('SELECT'):
            sub = self.select()
            self.expect_op(')')
            return ('in', l, sub)
        items = []
        if not self.at_op(')'):
            items.append(self.expr())
            while self.eat_op(','):
                items.append(self.expr())
        self.expect_op(')')
        return ('in', l, items)

    def add_expr(self):
        l = self.mul_expr()
        while self.at_op('+', '-', '||'):
            op = self.next()[1]
            r = self.mul_expr()
            l = ('binop', op, l, r)
        return l

    def mul_expr(self):
        l = self.atom()
        while self.at_op('*', '/', '%'):
            op = self.next()[1]
            r = self.atom()
            l = ('binop', op, l, r)
        return l

    def atom(self):
        t = self.next()
        if t == ('op', '('):
            if self.at_kw('SELECT'):
                sub = self.select()
                self.expect_op(')')
                return ('subselect', sub)
            e = self.expr()
            self.expect_op(')')
            return e
        if t == ('op', '?'):
            idx = self.counter[0]
            self.counter[0] += 1
            return ('param', idx)
        if t == ('op', '-'):
            a = self.atom()
            if a[0] == 'num':
                return ('num', -a[1])
            return ('binop', '-', ('num', 0), a)
        if t == ('op', '*'):
            return ('star',)
        if t[0] == 'num':
            return ('num', t[1])
        if t[0] == 'str':
            return ('str', t[1])
        if t[0] == 'hole':
            self.holes.append(t[1])
            return ('hole', t[1])
        if t == ('kw', 'NULL'):
            return ('null',)
        if t[0] == 'id' or (t[0] == 'kw' and t[1] in ('KEY', 'REPLACE', 'ROW')):
            name = t[1] if t[0] == 'id' else t[1].lower()
            if self.at_op('('):
                self.next()
                args = []
                if self.eat_op('*'):
                    args.append(('star',))
                elif not self.at_op(')'):
                    self.eat_kw('DISTINCT')
                    args.append(self.expr())
                    if name.upper() == 'CAST' and self.eat_kw('AS'):
                        args.append(('str', str(self.next()[1])))      # CAST(expr AS type)
                    while self.eat_op(','):
                        args.append(self.expr())
                self.expect_op(')')
                return ('func', name.upper(), args)
            if self.at_op('.'):
                self.next()
                sub = self.ident()
                return ('col', sub, name.upper())   # NEW.size / OLD.size
            return ('col', name)
        raise SqlError('unexpected token %r' % (t,))

    # ---------------------------------------------------------- statements
    def select(self):
        st = Stmt('')
        st.kind = 'select'
        self.expect_kw('SELECT')
        self.eat_kw('DISTINCT')
        st.columns.append(self.expr())
        while self.eat_op(','):
            st.columns.append(self.expr())
        st.colnames = [colname(c) or render(c) for c in st.columns]
        if self.eat_kw('FROM'):
            st.table = self.ident()
            self.index_hint(st)
        if self.eat_kw('WHERE'):
            st.where = self.expr()
        if self.eat_kw('ORDER'):
            self.expect_kw('BY')
            while True:
                e = self.add_expr()
                d = self.eat_kw('ASC', 'DESC')
                if d is None and self.peek()[0] == 'hole':
                    d = HOLE_L + self.next()[1] + HOLE_R
                st.order.append((e, d or 'ASC'))
                if not self.eat_op(','):
                    break
        if self.eat_kw('LIMIT'):
            st.limit = self.add_expr()
            if self.eat_kw('OFFSET'):
                st.offset = self.add_expr()
            elif self.eat_op(','):
                # LIMIT offset, count
                st.offset = st.limit
                st.limit = self.add_expr()
        return st

    def statement(self):
        t = self.peek()
        st = Stmt('')
        if t == ('kw', 'SELECT'):
            st = self.select()
        elif t == ('kw', 'INSERT') or t == ('kw', 'REPLACE'):
            self.next()
            st.kind = 'insert'
            if t[1] == 'REPLACE':
                st.conflict = 'replace'
            if self.eat_kw('OR'):
                st.conflict = self.expect_kw('REPLACE', 'IGNORE').lower()
            self.expect_kw('INTO')
            st.table = self.ident()
            if self.at_op('('):
                self.next()
                st.insert_cols = [self.ident()]
                while self.eat_op(','):
                    st.insert_cols.append(self.ident())
                self.expect_op(')')
            self.expect_kw('VALUES')
            self.expect_op('(')
            st.values.append(self.expr())
            while self.eat_op(','):
                st.values.append(self.expr())
            self.expect_op(')')
        elif t == ('kw', 'UPDATE'):
            self.next()
            st.kind = 'update'
            st.table = self.ident()
            self.index_hint(st)
            self.expect_kw('SET')
            while True:
                if self.peek()[0] == 'hole':
                    h = self.next()[1]
                    self.holes.append(h)
                    st.assigns.append((HOLE_L + h + HOLE_R, ('hole', h)))
                else:
                    col = self.ident()
                    self.expect_op('=')
                    st.assigns.append((col, self.add_expr()))
                if not self.eat_op(','):
                    break
            if self.eat_kw('WHERE'):
                st.where = self.expr()
        elif t == ('kw', 'DELETE'):
            self.next()
            st.kind = 'delete'
            self.expect_kw('FROM')
            st.table = self.ident()
            self.index_hint(st)
            if self.eat_kw('WHERE'):
                st.where = self.expr()
        elif t == ('kw', 'BEGIN'):
            self.next()
            st.kind = 'begin'
            st.begin_mode = self.eat_kw('IMMEDIATE', 'EXCLUSIVE', 'DEFERRED') or 'DEFERRED'
            self.eat_kw('TRANSACTION')
        elif t == ('kw', 'COMMIT') or t == ('kw', 'END'):
            self.next()
            self.eat_kw('TRANSACTION')
            st.kind = 'commit'
        elif t == ('kw', 'ROLLBACK'):
            self.next()
            self.eat_kw('TRANSACTION')
            st.kind = 'rollback'
        elif t == ('kw', 'VACUUM'):
            self.next()
            st.kind = 'vacuum'
        elif t == ('kw', 'PRAGMA'):
            self.next()
            st.kind = 'pragma'
            st.pragma = self.ident()
            if self.eat_op('='):
                v = self.next()
                if v[0] == 'hole':
                    self.holes.append(v[1])
                st.pragma_value = v[1]
                st.kind = 'pragma_set'
        elif t == ('kw', 'DROP') and self.peek(1) in (('kw', 'TRIGGER'), ('kw', 'TABLE')):
            self.next()
            what = self.next()[1]
            if self.eat_kw('IF'):
                self.expect_kw('EXISTS')
            st.kind = 'drop_trigger' if what == 'TRIGGER' else 'drop_table'
            st.name = self.ident() if self.peek()[0] != 'eof' else None
        elif t == ('kw', 'DROP'):
            self.next()
            self.expect_kw('INDEX')
            if self.eat_kw('IF'):
                self.expect_kw('EXISTS')
            st.kind = 'drop_index'
            st.name = self.ident()
        elif t == ('kw', 'CREATE'):
            self.next()
            if self.eat_kw('UNIQUE'):
                st.unique = True
            what = self.expect_kw('TABLE', 'INDEX', 'TRIGGER')
            if self.eat_kw('IF'):
                self.expect_kw('NOT')
                self.expect_kw('EXISTS')
            if what == 'TABLE':
                st.kind = 'create_table'
                st.table = self.ident()
                self.expect_op('(')
                while True:
                    name = self.ident()
                    rest = []
                    depth = 0
                    while True:
                        p = self.peek()
                        if p[0] == 'eof':
                            break
                        if p == ('op', '('):
                            depth += 1
                        if p == ('op', ')'):
                            if depth == 0:
                                break
                            depth -= 1
                        if p == ('op', ',') and depth == 0:
                            break
                        rest.append(str(self.next()[1]))
                    st.table_cols.append((name, rest[0] if rest else None, ' '.join(rest[1:])))
                    if not self.eat_op(','):
                        break
                self.expect_op(')')
            elif what == 'INDEX':
                st.kind = 'create_index'
                st.name = self.ident()
                self.expect_kw('ON')
                st.table = self.ident()
                self.expect_op('(')
                st.index_cols.append(self.ident())
                self.eat_kw('ASC', 'DESC')
                while self.eat_op(','):
                    st.index_cols.append(self.ident())
                    self.eat_kw('ASC', 'DESC')
                self.expect_op(')')
                if self.eat_kw('WHERE'):
                    st.where = self.expr()
            else:
                st.kind = 'create_trigger'
                st.name = self.ident()
                when = self.eat_kw('AFTER', 'BEFORE') or 'BEFORE'
                ev = self.expect_kw('INSERT', 'UPDATE', 'DELETE')
                if ev == 'UPDATE' and self.peek()[0] == 'id' and str(self.peek()[1]).upper() == 'OF':
                    self.next()
                    st.trigger_of = [self.ident()]
                    while self.eat_op(','):
                        st.trigger_of.append(self.ident())
                self.expect_kw('ON')
                st.table = self.ident()
                if self.eat_kw('FOR'):
                    self.expect_kw('EACH')
                    self.expect_kw('ROW')
                if self.peek()[0] == 'id' and str(self.peek()[1]).upper() == 'WHEN':
                    self.next()
                    st.trigger_when = self.expr()
                st.trigger_event = (when, ev)
                self.expect_kw('BEGIN')
                while not self.at_kw('END'):
                    sub = Parser(self.toks, self.counter)
                    sub.i = self.i
                    body = sub.statement()
                    self.i = sub.i
                    st.trigger_body.append(body)
                    self.expect_op(';')
                self.expect_kw('END')
        else:
            st.kind = 'unknown'
            self.i = len(self.toks)
        return st


def render(e):
    if e is None:
        return ''
    t = e[0]
    if t == 'col':
        return e[1] if len(e) == 2 else '%s.%s' % (e[2], e[1])
    if t == 'param':
        return '?'
    if t in ('num', 'str'):
        return repr(e[1])
    if t == 'hole':
        return HOLE_L + e[1] + HOLE_R
    if t == 'null':
        return 'NULL'
    if t == 'star':
        return '*'
    if t in ('and', 'or'):
        return '(%s %s %s)' % (render(e[1]), t.upper(), render(e[2]))
    if t == 'not':
        return 'NOT %s' % render(e[1])
    if t == 'cmp':
        return '%s %s %s' % (render(e[2]), e[1], render(e[3]))
    if t == 'isnull':
        return '%s IS %sNULL' % (render(e[1]), 'NOT ' if e[2] else '')
    if t == 'in':
        return '%s IN (...)' % render(e[1])
    if t == 'binop':
        return '%s %s %s' % (render(e[2]), e[1], render(e[3]))
    if t == 'func':
        return '%s(%s)' % (e[1], ', '.join(render(a) for a in e[2]))
    if t == 'subselect':
        return '(SELECT ...)'
    return str(e)


_cache = {}


def parse(text):
    """Parse one statement; never raises — unknown shapes give kind
    'unknown' with `.error` set."""
    if text in _cache:
        return _cache[text]
    st = None
    try:
        toks = tokenize(text)
        p = Parser(toks)
        st = p.statement()
        p.eat_op(';')
        if p.peek()[0] != 'eof':
            raise SqlError('trailing tokens at %r' % (p.peek(),))
        st.nparams = p.counter[0]
        st.holes = list(p.holes)
        st.error = None
    except SqlError as e:
        st = Stmt(text)
        # classify by the leading keyword: an unparsed SELECT/PRAGMA is still a read
        lead = text.strip().split(None, 1)[0].upper() if text.strip() else ''
        st.kind = {'SELECT': 'select', 'PRAGMA': 'pragma', 'EXPLAIN': 'pragma', 'ANALYZE': 'pragma',
                   'WITH': 'unknown'}.get(lead, 'unknown')
        st.partial = True
        st.error = str(e)
    st.text = text
    if st.kind == 'delete' and st.where is not None:
        for sub in _find_in(st.where):
            st.subselect = sub
    _cache[text] = st
    return st


def _find_in(e):
    if e is None or not isinstance(e, tuple):
        return
    if e[0] == 'in':
        yield e[2]
    for x in e[1:]:
        if isinstance(x, tuple):
            yield from _find_in(x)


def where_atoms(e):
    """Yield comparison / isnull atoms of a boolean tree."""
    if e is None:
        return
    if e[0] in ('and', 'or'):
        yield from where_atoms(e[1])
        yield from where_atoms(e[2])
    elif e[0] == 'not':
        yield from where_atoms(e[1])
    else:
        yield e


def mentions_col(e, col):
    if isinstance(e, list):
        return any(mentions_col(x, col) for x in e)
    if isinstance(e, Stmt):
        return any(mentions_col(c, col) for c in e.columns) or mentions_col(e.where, col)
    if not isinstance(e, tuple) or not e:
        return False
    if e[0] == 'col' and e[1] == col:
        return True
    return any(mentions_col(x, col) for x in e[1:])
