"""Abstract values and events of the path interpreter."""
import ast


class V:
    """Abstract value: kind `k` + payload tuple `a`."""
    __slots__ = ('k', 'a', '_h')

    def __init__(self, k, *a):
        self.k = k
        self.a = a
        self._h = None

    def key(self):
        if self._h is None:
            self._h = (self.k, repr(self.a))
        return self._h

    def __hash__(self):
        return hash(self.key())

    def __eq__(self, other):
        return isinstance(other, V) and self.key() == other.key()

    def __repr__(self):
        if self.k == 'const':
            return 'C(%r)' % (self.a[0],)
        return '%s%s' % (self.k, self.a if self.a else '')

    # convenience
    @property
    def is_const(self):
        return self.k == 'const'

    @property
    def val(self):
        return self.a[0]


def C(v):
    return V('const', v)


NONE = C(None)
TRUE = C(True)
FALSE = C(False)

_unk_counter = [0]


def unk(desc=''):
    _unk_counter[0] += 1
    return V('unk', desc, _unk_counter[0])


def tup(items):
    return V('tuple', tuple(items))


class Raise:
    """Marker returned by expression evaluation when the evaluation raises."""
    __slots__ = ('typ', 'data', 'hyp', 'node')

    def __init__(self, typ, data=None, hyp=False, node=None):
        self.typ = typ
        self.data = data
        self.hyp = hyp
        self.node = node

    def __repr__(self):
        return 'Raise(%s%s)' % (self.typ, ',hyp' if self.hyp else '')


class Ev:
    """One event of a trace."""
    __slots__ = ('kind', 'node', 'fn', 'd', 'txn', 'handlers', 'seq', 'stack', 'sites')

    def __init__(self, kind, node, fn, d=None):
        self.kind = kind
        self.node = node
        self.fn = fn          # Func in which the construct sits
        self.d = d or {}
        self.txn = ()
        self.handlers = ()
        self.seq = -1
        self.stack = ()
        self.sites = ()

    @property
    def line(self):
        return getattr(self.node, 'lineno', 0)

    def loc(self):
        return '%s:%d' % (self.fn.module if self.fn else '?', self.line)

    def __repr__(self):
        extra = ''
        if self.kind == 'SQL':
            st = self.d.get('stmt')
            extra = ' ' + (st.kind + ':' + str(st.table) if st is not None else '?')
        elif self.kind in ('CALL',):
            extra = ' ' + ','.join(t.qual for t in self.d.get('targets', []))
        elif self.kind in ('EXT', 'NEW'):
            extra = ' ' + str(self.d.get('name'))
        elif self.kind == 'TEST':
            extra = ' %s=%s' % (self.d.get('src'), self.d.get('truth'))
        elif self.kind == 'RAISE':
            extra = ' ' + str(self.d.get('typ'))
        return '<%s%s @%s txn=%s>' % (self.kind, extra, self.loc(), list(self.txn))


# exception hierarchy (canonical names)
EXC_PARENT = {
    'Timeout': 'Exception',
    'KeyError': 'LookupError', 'IndexError': 'LookupError', 'LookupError': 'Exception',
    'OSError': 'Exception', 'FileNotFoundError': 'OSError',
    'sqlite3.OperationalError': 'sqlite3.DatabaseError', 'sqlite3.IntegrityError': 'sqlite3.DatabaseError',
    'sqlite3.ProgrammingError': 'sqlite3.DatabaseError',
    'sqlite3.DatabaseError': 'sqlite3.Error', 'sqlite3.Error': 'Exception',
    'ValueError': 'Exception', 'TypeError': 'Exception', 'AssertionError': 'Exception',
    'AttributeError': 'Exception', 'StopIteration': 'Exception', 'RuntimeError': 'Exception',
    'ImportError': 'Exception', 'NotImplementedError': 'RuntimeError', 'ZeroDivisionError': 'Exception',
    'UnicodeError': 'ValueError', 'UnicodeEncodeError': 'UnicodeError', 'pickle.PicklingError': 'Exception',
    'Exception': 'BaseException', 'KeyboardInterrupt': 'BaseException', 'GeneratorExit': 'BaseException',
    'SystemExit': 'BaseException', 'BaseException': None,
}
EXC_ALIAS = {'IOError': 'OSError', 'EnvironmentError': 'OSError', 'pkg:core.Timeout': 'Timeout',
             'pkg:core.EmptyDirWarning': 'EmptyDirWarning', 'pkg:core.UnknownFileWarning': 'UnknownFileWarning'}


def canon_exc(name):
    name = EXC_ALIAS.get(name, name)
    if name.startswith('builtins.'):
        name = name[9:]
    return EXC_ALIAS.get(name, name)


def exc_is_subclass(t, h):
    """True if exception type t is h or a subclass of h."""
    while t is not None:
        if t == h:
            return True
        t = EXC_PARENT.get(t, 'Exception' if t not in ('BaseException',) else None)
        if t == 'Exception' and h == 'Exception':
            return True
    return False


def catches(handler_types, raised):
    """'yes' / 'no' / 'maybe' — does a handler for `handler_types` (list of
    canonical names, [] = bare except) catch `raised` ('ANY' = unknown)?"""
    if not handler_types or 'BaseException' in handler_types:
        return 'yes'
    if raised == 'ANY':
        return 'maybe'
    if raised == 'ANYEXC':   # unknown subclass of Exception
        return 'yes' if 'Exception' in handler_types else 'maybe'
    for h in handler_types:
        if exc_is_subclass(raised, h):
            return 'yes'
    return 'no'


def src_of(node):
    try:
        return ast.unparse(node)
    except Exception:
        return '<?>'
