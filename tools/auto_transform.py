#!/venv/bin/python
"""Whole-package behaviour-preserving transformations, used to test that the checks stay quiet.

usage: auto_transform.py <mode> <package dir>      (rewrites <package dir>/*.py in place)
modes: unparse   - ast.unparse of every module (comments, layout, quoting, line numbers change)
       rename    - every local variable of every function is renamed (x -> x_rn), consistently through closures
       invert    - every `if c: A else: B` (not an elif chain) becomes `if not c: B else: A`
       reorder   - the methods of every class are sorted by name (class-level aliases stay behind them)
       swapcmp   - a < b -> b > a for single comparisons of side-effect-free operands (also is / is not)
       fstring   - '..%s..' % (a, b) -> f'..{a}..{b}'
       sqlconst  - SQL string literals inside functions move to module-level constants _SQL_<n>
       demorgan  - `if a or b` -> `if not (not a and not b)` and dually (same evaluation order)
       ternary   - conditional expressions in assignments/returns become if statements
       all       - all of the above
The transformed package passes the unedited test suite (recorded in DESIGN §11.10)."""
import ast
import glob
import os
import sys


# ------------------------------------------------------------------ rename
def _own_bindings(fn):
    """Names bound by statements of fn's own scope (not nested functions/classes/comprehensions)."""
    bound, declared = set(), set()
    comp_targets = set()

    def targets(t):
        if isinstance(t, ast.Name):
            bound.add(t.id)
        elif isinstance(t, (ast.Tuple, ast.List)):
            for e in t.elts:
                targets(e)
        elif isinstance(t, ast.Starred):
            targets(t.value)

    def visit(n, in_comp=False):
        for c in ast.iter_child_nodes(n):
            if isinstance(c, (ast.FunctionDef, ast.AsyncFunctionDef, ast.ClassDef)):
                bound.add(c.name)
                declared.add(c.name)        # nested function names are observable (__qualname__): not renamed
                continue
            if isinstance(c, ast.Lambda):
                continue
            if isinstance(c, (ast.ListComp, ast.SetComp, ast.DictComp, ast.GeneratorExp)):
                for g in c.generators:
                    for x in ast.walk(g.target):
                        if isinstance(x, ast.Name):
                            comp_targets.add(x.id)
                visit(c, True)
                continue
            if isinstance(c, (ast.Global, ast.Nonlocal)):
                declared.update(c.names)
            if not in_comp:
                if isinstance(c, ast.Assign):
                    for t in c.targets:
                        targets(t)
                elif isinstance(c, (ast.AugAssign, ast.AnnAssign)):
                    targets(c.target)
                elif isinstance(c, (ast.For, ast.AsyncFor)):
                    targets(c.target)
                elif isinstance(c, (ast.With, ast.AsyncWith)):
                    for it in c.items:
                        if it.optional_vars is not None:
                            targets(it.optional_vars)
                elif isinstance(c, ast.ExceptHandler) and c.name:
                    bound.add(c.name)
                elif isinstance(c, ast.NamedExpr):
                    targets(c.target)
                elif isinstance(c, (ast.Import, ast.ImportFrom)):
                    for a in c.names:
                        bound.add((a.asname or a.name).split('.')[0])
                        declared.add((a.asname or a.name).split('.')[0])
            visit(c, in_comp)
    visit(fn)
    return bound, declared, comp_targets


def _params(fn):
    a = fn.args
    ps = [p.arg for p in a.posonlyargs + a.args + a.kwonlyargs]
    if a.vararg:
        ps.append(a.vararg.arg)
    if a.kwarg:
        ps.append(a.kwarg.arg)
    return set(ps)


class Renamer:
    def __init__(self, suffix='_rn'):
        self.suffix = suffix

    def run(self, tree):
        for n in tree.body:
            self.scope(n, {})
        return tree

    def scope(self, node, outer):
        if isinstance(node, (ast.FunctionDef, ast.AsyncFunctionDef)):
            bound, declared, comp = _own_bindings(node)
            params = _params(node)
            if any(isinstance(x, ast.Global) for x in ast.walk(node)):
                mapping = {k: v for k, v in outer.items() if k not in params and k not in bound}
            else:
                mine = {b for b in bound if b not in params and b not in declared and b not in comp
                        and not b.startswith('__')}
                mapping = {k: v for k, v in outer.items() if k not in params and (k not in bound or k in declared)}
                for b in mine:
                    mapping[b] = b + self.suffix
            # decorators and defaults belong to the enclosing scope
            for d in node.decorator_list:
                self.rename(d, outer)
            for d in node.args.defaults + [x for x in node.args.kw_defaults if x is not None]:
                self.rename(d, outer)
            for st in node.body:
                self.rename(st, mapping)
            return
        if isinstance(node, ast.ClassDef):
            for st in node.body:
                self.scope(st, outer) if isinstance(st, (ast.FunctionDef, ast.AsyncFunctionDef, ast.ClassDef)) \
                    else self.rename(st, outer)
            return
        self.rename(node, outer)

    def rename(self, node, mapping):
        if isinstance(node, (ast.FunctionDef, ast.AsyncFunctionDef)):
            if node.name in mapping:
                node.name = mapping[node.name]
            self.scope(node, mapping)
            return
        if isinstance(node, ast.ClassDef):
            if node.name in mapping:
                node.name = mapping[node.name]
            self.scope(node, mapping)
            return
        if isinstance(node, ast.Lambda):
            ps = _params(node)
            inner = {k: v for k, v in mapping.items() if k not in ps}
            for d in node.args.defaults:
                self.rename(d, mapping)
            self.rename(node.body, inner)
            return
        if isinstance(node, (ast.ListComp, ast.SetComp, ast.DictComp, ast.GeneratorExp)):
            tg = set()
            for g in node.generators:
                for x in ast.walk(g.target):
                    if isinstance(x, ast.Name):
                        tg.add(x.id)
            inner = {k: v for k, v in mapping.items() if k not in tg}
            # the first iterable is evaluated in the enclosing scope
            self.rename(node.generators[0].iter, mapping)
            for i, g in enumerate(node.generators):
                if i:
                    self.rename(g.iter, inner)
                for c in g.ifs:
                    self.rename(c, inner)
            for f in ('elt', 'key', 'value'):
                if hasattr(node, f):
                    self.rename(getattr(node, f), inner)
            return
        if isinstance(node, ast.Name) and node.id in mapping:
            node.id = mapping[node.id]
        if isinstance(node, ast.ExceptHandler) and node.name in mapping:
            node.name = mapping[node.name]
        for c in ast.iter_child_nodes(node):
            self.rename(c, mapping)


# ------------------------------------------------------------------ invert
class Inverter(ast.NodeTransformer):
    def visit_If(self, node):
        self.generic_visit(node)
        if node.orelse and not (len(node.orelse) == 1 and isinstance(node.orelse[0], ast.If)):
            test = node.test
            if isinstance(test, ast.UnaryOp) and isinstance(test.op, ast.Not):
                new_test = test.operand
            else:
                new_test = ast.UnaryOp(op=ast.Not(), operand=test)
            return ast.If(test=new_test, body=node.orelse, orelse=node.body)
        return node


# ------------------------------------------------------------------ reorder
class Reorderer(ast.NodeTransformer):
    def visit_ClassDef(self, node):
        self.generic_visit(node)
        doc = []
        body = list(node.body)
        if body and isinstance(body[0], ast.Expr) and isinstance(body[0].value, ast.Constant) \
                and isinstance(body[0].value.value, str):
            doc = [body.pop(0)]
        funcs = [b for b in body if isinstance(b, (ast.FunctionDef, ast.AsyncFunctionDef))]
        rest = [b for b in body if not isinstance(b, (ast.FunctionDef, ast.AsyncFunctionDef))]
        # annotations / simple constants that functions' decorators or defaults may need stay first
        early = [b for b in rest if isinstance(b, (ast.AnnAssign,))]
        late = [b for b in rest if b not in early]
        funcs.sort(key=lambda f: f.name)       # stable: a property stays before its setter
        node.body = doc + early + funcs + late
        return node


# ------------------------------------------------------------------ swapcmp
_SWAP = {ast.Lt: ast.Gt, ast.Gt: ast.Lt, ast.LtE: ast.GtE, ast.GtE: ast.LtE, ast.Is: ast.Is, ast.IsNot: ast.IsNot}


def _pure(e):
    return isinstance(e, (ast.Name, ast.Constant)) or (isinstance(e, ast.Attribute) and _pure(e.value)) or \
        (isinstance(e, ast.UnaryOp) and _pure(e.operand))


class CmpSwapper(ast.NodeTransformer):
    """a < b -> b > a (single comparisons of side-effect-free operands; ==/!= are left alone because the order
    decides whose __eq__ runs first)."""
    def visit_Compare(self, node):
        self.generic_visit(node)
        if len(node.ops) == 1 and type(node.ops[0]) in _SWAP and _pure(node.left) and _pure(node.comparators[0]):
            return ast.Compare(left=node.comparators[0], ops=[_SWAP[type(node.ops[0])]()], comparators=[node.left])
        return node


# ------------------------------------------------------------------ fstring
import re as _re


class FStringer(ast.NodeTransformer):
    """'...%s...' % (a, b)  ->  f'...{a}...{b}'  (only %s placeholders, explicit tuple on the right)."""
    def visit_BinOp(self, node):
        self.generic_visit(node)
        if isinstance(node.op, ast.Mod) and isinstance(node.left, ast.Constant) and isinstance(node.left.value, str) \
                and isinstance(node.right, ast.Tuple):
            text = node.left.value
            parts = _re.split(r'(%%|%s)', text)
            if '%' in ''.join(p for p in parts if p not in ('%%', '%s')):
                return node
            n = sum(1 for p in parts if p == '%s')
            if n != len(node.right.elts) or any(isinstance(e, ast.Starred) for e in node.right.elts):
                return node
            vals, it = [], iter(node.right.elts)
            for p in parts:
                if p == '%s':
                    vals.append(ast.FormattedValue(value=next(it), conversion=-1, format_spec=None))
                elif p == '%%':
                    vals.append(ast.Constant(value='%'))
                elif p:
                    vals.append(ast.Constant(value=p))
            return ast.JoinedStr(values=vals)
        return node


# ------------------------------------------------------------------ ternary
class Ternary(ast.NodeTransformer):
    """x = a if c else b  ->  if c: x = a / else: x = b ;  return a if c else b  ->  if c: return a / return b"""
    def visit_Assign(self, node):
        if isinstance(node.value, ast.IfExp) and len(node.targets) == 1 and isinstance(node.targets[0], ast.Name):
            v = node.value
            return ast.If(test=v.test, body=[ast.Assign(targets=[ast.Name(id=node.targets[0].id, ctx=ast.Store())],
                                                       value=v.body)],
                          orelse=[ast.Assign(targets=[ast.Name(id=node.targets[0].id, ctx=ast.Store())],
                                             value=v.orelse)])
        return node

    def visit_Return(self, node):
        if isinstance(node.value, ast.IfExp):
            v = node.value
            return [ast.If(test=v.test, body=[ast.Return(value=v.body)], orelse=[]), ast.Return(value=v.orelse)]
        return node


# ------------------------------------------------------------------ sqlconst
class SqlConst(ast.NodeTransformer):
    """String literals that start with an SQL keyword move to module-level constants _SQL_<n>."""
    KW = ('SELECT', 'INSERT', 'UPDATE', 'DELETE', 'CREATE', 'DROP', 'PRAGMA', 'BEGIN', 'COMMIT', 'ROLLBACK', 'VACUUM')

    def __init__(self):
        self.consts = []
        self.depth = 0

    def visit_FunctionDef(self, node):
        self.depth += 1
        self.generic_visit(node)
        self.depth -= 1
        return node

    def visit_JoinedStr(self, node):
        return node

    def visit_Expr(self, node):
        if isinstance(node.value, ast.Constant):
            return node         # docstring
        self.generic_visit(node)
        return node

    def visit_Constant(self, node):
        if self.depth and isinstance(node.value, str) and node.value.lstrip().startswith(self.KW) \
                and ' ' in node.value.strip() or (self.depth and isinstance(node.value, str)
                                                   and node.value.strip().upper() in ('COMMIT', 'ROLLBACK', 'VACUUM')):
            name = '_SQL_%d' % len(self.consts)
            self.consts.append((name, node.value))
            return ast.Name(id=name, ctx=ast.Load())
        return node

    def finish(self, tree):
        # after the last import / docstring at module level
        pos = 0
        for i, n in enumerate(tree.body):
            if isinstance(n, (ast.Import, ast.ImportFrom)) or (i == 0 and isinstance(n, ast.Expr)) \
                    or isinstance(n, ast.Try):
                pos = i + 1
        new = [ast.Assign(targets=[ast.Name(id=k, ctx=ast.Store())], value=ast.Constant(value=v)) for k, v in self.consts]
        tree.body[pos:pos] = new
        return tree


# ------------------------------------------------------------------ demorgan
class DeMorgan(ast.NodeTransformer):
    """if a or b -> if not (not a and not b); if a and b -> if not (not a or not b) (same evaluation order)."""
    def _flip(self, test):
        if isinstance(test, ast.BoolOp):
            other = ast.And() if isinstance(test.op, ast.Or) else ast.Or()
            vals = [v.operand if isinstance(v, ast.UnaryOp) and isinstance(v.op, ast.Not)
                    else ast.UnaryOp(op=ast.Not(), operand=v) for v in test.values]
            return ast.UnaryOp(op=ast.Not(), operand=ast.BoolOp(op=other, values=vals))
        return test

    def visit_If(self, node):
        self.generic_visit(node)
        node.test = self._flip(node.test)
        return node

    def visit_While(self, node):
        self.generic_visit(node)
        node.test = self._flip(node.test)
        return node


class Annotator(ast.NodeTransformer):
    """PEP 484 housekeeping: annotate every parameter and return, and turn the first plain assignment of a local in
    each function into an annotated assignment."""

    def _ann(self):
        return ast.Constant(value='object')

    def visit_FunctionDef(self, node):
        self.generic_visit(node)
        a = node.args
        for x in a.posonlyargs + a.args + a.kwonlyargs:
            if x.arg not in ('self', 'cls') and x.annotation is None:
                x.annotation = self._ann()
        for x in (a.vararg, a.kwarg):
            if x is not None and x.annotation is None:
                x.annotation = self._ann()
        if node.returns is None and node.name != '__init__':
            node.returns = self._ann()
        seen = set()
        declared = {n2 for st in ast.walk(node) if isinstance(st, (ast.Global, ast.Nonlocal)) for n2 in st.names}
        for i, st in enumerate(node.body):
            if isinstance(st, ast.Assign) and len(st.targets) == 1 and isinstance(st.targets[0], ast.Name) \
                    and st.targets[0].id not in seen and st.targets[0].id not in declared:
                seen.add(st.targets[0].id)
                node.body[i] = ast.AnnAssign(target=ast.Name(id=st.targets[0].id, ctx=ast.Store()),
                                             annotation=self._ann(), value=st.value, simple=1)
        return node


def transform(mode, src):
    tree = ast.parse(src)
    if mode in ('annotate',):
        tree = Annotator().visit(tree)
    if mode in ('rename', 'all'):
        tree = Renamer().run(tree)
    if mode in ('invert', 'all'):
        tree = Inverter().visit(tree)
    if mode in ('reorder', 'all'):
        tree = Reorderer().visit(tree)
    if mode in ('sqlconst', 'all'):
        sc = SqlConst()
        tree = sc.visit(tree)
        tree = sc.finish(tree)
    if mode in ('demorgan', 'all'):
        tree = DeMorgan().visit(tree)
    if mode in ('ternary', 'all'):
        tree = Ternary().visit(tree)
    if mode in ('swapcmp', 'all'):
        tree = CmpSwapper().visit(tree)
    if mode in ('fstring', 'all'):
        tree = FStringer().visit(tree)
    ast.fix_missing_locations(tree)
    return ast.unparse(tree) + '\n'


def main():
    mode, pkg = sys.argv[1], sys.argv[2]
    for p in sorted(glob.glob(os.path.join(pkg, '*.py'))):
        with open(p) as f:
            s = f.read()
        t = transform(mode, s)
        compile(t, p, 'exec')
        with open(p, 'w') as f:
            f.write(t)


if __name__ == '__main__':
    main()
