#!/venv/bin/python
"""Regenerate MANIFEST.json from the property table (sa/props.py)."""
import json, os, sys
HERE = os.path.dirname(os.path.dirname(os.path.abspath(__file__)))
sys.path.insert(0, HERE)
from sa import props
from sa.framework import RULES

checks = []
for pid in sorted(props.PROPS):
    sp = props.PROPS[pid]
    rules = [r if isinstance(r, str) else r[0] for r in sp['rules']]
    checks.append({
        'property_id': pid,
        'quick_cmd': '/venv/bin/python check.py %s --tier quick' % pid,
        'thorough_cmd': '/venv/bin/python check.py %s --tier thorough' % pid,
        'evidence_file': '/verif/evidence/%s.json' % pid,
        'replay_cmd_template': '/venv/bin/python check.py --explain {path}',
        'engine': 'sa',
        'level_claimed': {
            'category': 'other',
            'text': 'Static structural proof over all enumerated paths, SQL sites and call sites of the current tree '
                    'of NAMED NECESSARY CONDITIONS of the property (rules %s), not of the behaviour itself. %s'
                    % (', '.join(rules), sp['explanation']),
            'design_ref': 'DESIGN.md sections 4 and 5 (row %s)' % pid,
        },
        'level_note': 'Not decided: %s Trusted base: Python semantics of with/generators/contextmanager; SQLite '
                      'semantics (BEGIN IMMEDIATE, WAL atomic commit, triggers, NULL logic); no monkey patching, Disk '
                      'subclasses other than JSONDisk out of scope; the role tables of DESIGN Appendix A (private helpers '
                      'are found by use, not by name). Exit codes: 0 held, 1 + VIOLATION line, 2 + ANALYSIS-ERROR when '
                      'the analysis cannot vouch for the tree (vanished anchor, or constructs outside the modelled '
                      'subset such as namedtuple rows / private classes in core / unknown decorators: verdict withheld, '
                      'DESIGN section 7).'
                      % sp['not_decided'],
        'technique': 'static analysis: ' + sp['technique'],
    })
m = {
    'version': 1,
    'setup_cmd': '/venv/bin/python check.py --self-check',
    'hooks': {
        'guard': 'DISKCACHE_VERIF',
        'enable': 'none needed: the checks are static and read /repo/diskcache/*.py as it is; no instrumentation '
                  'was added to the repository',
        'baseline_off_cmd': 'cd /repo && /venv/bin/python -m pytest -ra -q -p no:cacheprovider --timeout=900 '
                            '--continue-on-collection-errors',
        'source_commits': [],
        'add_only': True,
    },
    'engines': [{
        'name': 'sa',
        'path': '/verif/sa',
        'serves_properties': sorted(props.PROPS),
        'kind_free_text': 'repo-specific static analyser on stdlib ast: program model with receiver typing and call '
                          'resolution, flow-sensitive SQL string evaluation + SQL parser, structural path interpreter '
                          'with exceptional edges and flag correlation, %d rules (trace predicates, table agreements, '
                          'order abstractions, who-may lists)' % len(RULES),
    }],
    'checks': checks,
    'notes': 'exit 0 = all obligations discharged or listed in known_findings.json (KNOWN-FINDING lines); exit 1 = '
             'VIOLATION line(s); exit 2 = ANALYSIS-ERROR (anchor vanished, floor not met, internal error) - never a '
             'verdict. thorough = same obligations with deeper loop unrolling/inlining plus the mutation self-test of '
             'the rules serving the property (sensitivity evidence, non-gating). Six genuine defects were repaired by '
             'fix: commits in /repo (see known_findings.json, status fixed).',
    'not_applicable': [],
}
with open(os.path.join(HERE, 'MANIFEST.json'), 'w') as f:
    json.dump(m, f, indent=1)
print('wrote MANIFEST.json with %d checks' % len(checks))
