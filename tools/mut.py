#!/venv/bin/python
"""Apply one textual edit to a scratch copy of /repo/diskcache and run rules on it.
usage: mut.py RULE[,RULE..] file 'old' 'new' [count]"""
import sys, os, shutil, tempfile
sys.path.insert(0, os.path.dirname(os.path.dirname(os.path.abspath(__file__))))
from sa.framework import Ctx, RULES
from sa import props
from sa.model import AnalysisError
rules = sys.argv[1].split(',')
fn, old, new = sys.argv[2:5]
d = tempfile.mkdtemp(prefix='sa-mut-')
try:
    shutil.copytree('/repo/diskcache', os.path.join(d, 'diskcache'))
    p = os.path.join(d, 'diskcache', fn)
    s = open(p).read()
    if old not in s:
        print('PATTERN NOT FOUND'); sys.exit(3)
    s = s.replace(old, new, int(sys.argv[5]) if len(sys.argv) > 5 else 1)
    open(p, 'w').write(s)
    compile(s, p, 'exec')
    try:
        ctx = Ctx(repo=d)
        for rid in rules:
            for o in RULES[rid](ctx):
                if not o.ok:
                    print('FIRES', rid, o.key, o.loc, o.msg[:100])
        print('done')
    except AnalysisError as e:
        print('ANALYSIS-ERROR', e)
finally:
    shutil.rmtree(d)
