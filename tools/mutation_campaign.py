#!/venv/bin/python
"""Operator-mutation campaign: an unbiased sample of small syntactic changes of the package.

For each sampled mutant: (1) run every check on it (VERIF_REPO=<scratch>), (2) run the unedited test suite on it.
Mutants that survive the suite are the interesting ones:
  flagged + survived   -> either a real property violation the suite misses (good) or a FALSE ALARM on an
                          equivalent mutant (must be triaged by reading);
  unflagged + survived -> either equivalent or a MISS.
Results are appended to <out>.jsonl; nothing here is a registered check (sensitivity / robustness evidence only).

usage: mutation_campaign.py <n samples> <seed> <out.jsonl> [workers]"""
import ast
import copy
import json
import os
import random
import shutil
import subprocess
import sys
import tempfile
from concurrent.futures import ThreadPoolExecutor

REPO = '/repo'
FILES = ['core.py', 'fanout.py', 'persistent.py', 'recipes.py', 'djangocache.py']

ROR = {ast.Lt: ast.LtE, ast.LtE: ast.Lt, ast.Gt: ast.GtE, ast.GtE: ast.Gt, ast.Eq: ast.NotEq, ast.NotEq: ast.Eq,
       ast.Is: ast.IsNot, ast.IsNot: ast.Is, ast.In: ast.NotIn, ast.NotIn: ast.In}
AOR = {ast.Add: ast.Sub, ast.Sub: ast.Add, ast.Mult: ast.FloorDiv, ast.Div: ast.Mult, ast.FloorDiv: ast.Mult,
       ast.Mod: ast.Mult}


def enumerate_mutants(tree):
    """Yield (operator, lineno, description, apply(tree_copy_node)) for every mutation point."""
    out = []
    nodes = list(ast.walk(tree))
    for idx, n in enumerate(nodes):
        ln = getattr(n, 'lineno', 0)
        if isinstance(n, ast.Compare) and len(n.ops) == 1 and type(n.ops[0]) in ROR:
            out.append(('ROR', ln, '%s -> %s' % (type(n.ops[0]).__name__, ROR[type(n.ops[0])].__name__), idx, 'ror'))
        if isinstance(n, (ast.If, ast.While)) and not (isinstance(n.test, ast.Constant)):
            out.append(('COI', ln, 'negate condition `%s`' % ast.unparse(n.test)[:50], idx, 'coi'))
        if isinstance(n, ast.BinOp) and type(n.op) in AOR and not isinstance(n.left, ast.Constant):
            out.append(('AOR', ln, '%s -> %s' % (type(n.op).__name__, AOR[type(n.op)].__name__), idx, 'aor'))
        if isinstance(n, ast.BoolOp):
            out.append(('LCR', ln, '%s -> %s' % (type(n.op).__name__, 'Or' if isinstance(n.op, ast.And) else 'And'),
                        idx, 'lcr'))
        if isinstance(n, ast.Constant) and isinstance(n.value, bool):
            out.append(('CRP', ln, '%r -> %r' % (n.value, not n.value), idx, 'crp_bool'))
        elif isinstance(n, ast.Constant) and isinstance(n.value, int) and not isinstance(n.value, bool) \
                and n.value in (0, 1, 2, 10, 100):
            out.append(('CRP', ln, '%r -> %r' % (n.value, n.value + 1), idx, 'crp_int'))
        if isinstance(n, ast.Expr) and isinstance(n.value, ast.Call):
            out.append(('SDL', ln, 'delete `%s`' % ast.unparse(n.value)[:60], idx, 'sdl'))
        if isinstance(n, ast.Call) and n.keywords:
            for ki, k in enumerate(n.keywords):
                if k.arg in ('retry', 'expire', 'tag', 'read', 'side', 'default', 'expire_time', 'update'):
                    out.append(('KWD', ln, 'drop keyword %s= in `%s`' % (k.arg, ast.unparse(n.func)[:40]), idx,
                                'kwd:%d' % ki))
        if isinstance(n, ast.Break):
            out.append(('BRK', ln, 'break -> continue', idx, 'brk'))
        if isinstance(n, ast.Return) and n.value is not None and not isinstance(n.value, ast.Constant):
            out.append(('RET', ln, 'return `%s` -> return None' % ast.unparse(n.value)[:40], idx, 'ret'))
        if isinstance(n, ast.UnaryOp) and isinstance(n.op, ast.Not):
            out.append(('NOT', ln, 'drop `not`', idx, 'not'))
    return out


def apply_mutation(tree, idx, how):
    t = copy.deepcopy(tree)
    nodes = list(ast.walk(t))
    n = nodes[idx]
    parent_of = {}
    for p in nodes:
        for c in ast.iter_child_nodes(p):
            parent_of[id(c)] = p
    if how == 'ror':
        n.ops = [ROR[type(n.ops[0])]()]
    elif how == 'coi':
        n.test = ast.UnaryOp(op=ast.Not(), operand=n.test)
    elif how == 'aor':
        n.op = AOR[type(n.op)]()
    elif how == 'lcr':
        n.op = ast.Or() if isinstance(n.op, ast.And) else ast.And()
    elif how == 'crp_bool':
        n.value = not n.value
    elif how == 'crp_int':
        n.value = n.value + 1
    elif how == 'sdl':
        p = parent_of[id(n)]
        for field in ('body', 'orelse', 'finalbody'):
            lst = getattr(p, field, None)
            if isinstance(lst, list) and n in lst:
                i = lst.index(n)
                lst[i] = ast.Pass()
    elif how.startswith('kwd:'):
        del n.keywords[int(how[4:])]
    elif how == 'brk':
        p = parent_of[id(n)]
        for field in ('body', 'orelse', 'finalbody'):
            lst = getattr(p, field, None)
            if isinstance(lst, list) and n in lst:
                lst[lst.index(n)] = ast.Continue()
    elif how == 'ret':
        n.value = ast.Constant(value=None)
    elif how == 'not':
        p = parent_of[id(n)]
        for field, val in ast.iter_fields(p):
            if val is n:
                setattr(p, field, n.operand)
            elif isinstance(val, list) and n in val:
                val[val.index(n)] = n.operand
    ast.fix_missing_locations(t)
    return t


def sh(cmd, cwd=None, timeout=1200, env=None):
    try:
        p = subprocess.run(cmd, shell=True, cwd=cwd, capture_output=True, text=True, timeout=timeout, env=env)
        return p.returncode, p.stdout + p.stderr
    except subprocess.TimeoutExpired:
        return 124, 'TIMEOUT'


def evaluate(job):
    mid, fn, op, ln, desc, src = job
    d = tempfile.mkdtemp(prefix='mut-')
    res = {'id': mid, 'file': fn, 'op': op, 'line': ln, 'desc': desc}
    try:
        for item in ('diskcache', 'tests', 'tox.ini', 'setup.py', 'README.rst', 'requirements.txt', 'docs'):
            s = os.path.join(REPO, item)
            if os.path.isdir(s):
                shutil.copytree(s, os.path.join(d, item), ignore=shutil.ignore_patterns('__pycache__', '_build'))
            elif os.path.exists(s):
                shutil.copy(s, d)
        with open(os.path.join(d, 'diskcache', fn), 'w') as f:
            f.write(src)
        rc, out = sh('/venv/bin/python -c "import sys; sys.path.insert(0, \'.\'); import diskcache"', cwd=d)
        if rc != 0:
            res['status'] = 'import-error'
            return res
        tmp = os.path.join(d, '.tmp')
        os.makedirs(tmp, exist_ok=True)
        env2 = dict(os.environ, TMPDIR=tmp)
        rc, out = sh('/venv/bin/python -m pytest -x -q -p no:cacheprovider --timeout=300 -n 4 2>&1 | tail -15', cwd=d,
                     env=env2, timeout=1500)
        tail = out.strip().splitlines()[-1] if out.strip() else ''
        survived = ' passed' in tail and 'failed' not in tail and 'error' not in tail
        if not survived and ('model_instance' in out or 'database is locked' in out):
            rc, out2 = sh('/venv/bin/python -m pytest -x -q -p no:cacheprovider --timeout=300 -n 0 2>&1 | tail -5', cwd=d,
                          env=env2, timeout=1500)
            tail = out2.strip().splitlines()[-1] if out2.strip() else ''
            survived = ' passed' in tail and 'failed' not in tail and 'error' not in tail
        res['suite'] = tail[:120]
        res['survived'] = survived
        res['status'] = 'done'
        if survived:
            # only survivors are interesting: run every check on them and keep the mutated file for triage
            evd = tempfile.mkdtemp(prefix='mut-ev-')
            env = dict(os.environ, VERIF_REPO=d, VERIF_EVIDENCE_DIR=evd)
            rc, out = sh('/venv/bin/python check.py --all', cwd='/verif', env=env, timeout=600)
            shutil.rmtree(evd, ignore_errors=True)
            lines = [l for l in out.splitlines() if l.startswith(('VIOLATION', 'ANALYSIS-ERROR'))]
            res['flagged'] = sorted({l.split('replay=')[1].split('/')[-1].rsplit('.json', 1)[0] for l in lines
                                     if 'replay=' in l})
            res['analysis_error'] = [l[:200] for l in lines if l.startswith('ANALYSIS-ERROR')]
            res['check_rc'] = rc
            keep = os.path.join(os.path.dirname(os.path.abspath(sys.argv[3])), 'survivors')
            os.makedirs(keep, exist_ok=True)
            with open(os.path.join(keep, mid.replace(':', '_').replace('/', '_') + '.py'), 'w') as f:
                f.write(src)
        return res
    finally:
        shutil.rmtree(d, ignore_errors=True)


def main():
    n, seed, outp = int(sys.argv[1]), int(sys.argv[2]), sys.argv[3]
    workers = int(sys.argv[4]) if len(sys.argv) > 4 else 3
    rnd = random.Random(seed)
    allm = []
    trees = {}
    for fn in FILES:
        with open(os.path.join(REPO, 'diskcache', fn)) as f:
            src = f.read()
        tree = ast.parse(src)
        trees[fn] = tree
        for op, ln, desc, idx, how in enumerate_mutants(tree):
            allm.append((fn, op, ln, desc, idx, how))
    rnd.shuffle(allm)
    done = set()
    if os.path.exists(outp):
        for l in open(outp):
            try:
                done.add(json.loads(l)['id'])
            except Exception:
                pass
    jobs = []
    for fn, op, ln, desc, idx, how in allm[:n]:
        mid = '%s:%d:%s:%s' % (fn, ln, op, how)
        if mid in done:
            continue
        t = apply_mutation(trees[fn], idx, how)
        try:
            src = ast.unparse(t) + '\n'
            compile(src, fn, 'exec')
        except Exception:
            continue
        jobs.append((mid, fn, op, ln, desc, src))
    print('total mutation points %d, sampled %d, to run %d' % (len(allm), n, len(jobs)), flush=True)
    with ThreadPoolExecutor(max_workers=workers) as ex, open(outp, 'a') as out:
        for r in ex.map(evaluate, jobs):
            out.write(json.dumps(r) + '\n')
            out.flush()
            print(r['id'], r.get('status'), 'survived' if r.get('survived') else 'killed', r.get('flagged'), flush=True)


if __name__ == '__main__':
    main()
