#!/venv/bin/python
"""Re-run every check on the surviving mutants of a campaign (survivors/*.py next to the results file)."""
import glob, json, os, shutil, subprocess, sys, tempfile
from concurrent.futures import ThreadPoolExecutor
res_file = sys.argv[1]
surv = os.path.join(os.path.dirname(os.path.abspath(res_file)), 'survivors')
desc = {}
for l in open(res_file):
    r = json.loads(l)
    desc[r['id'].replace(':', '_').replace('/', '_')] = r


def one(path):
    mid = os.path.basename(path)[:-3]
    fn = mid.split('.py_')[0] + '.py'
    d = tempfile.mkdtemp(prefix='mutre-')
    try:
        shutil.copytree('/repo/diskcache', d + '/diskcache', ignore=shutil.ignore_patterns('__pycache__'))
        shutil.copy(path, d + '/diskcache/' + fn)
        env = dict(os.environ, VERIF_REPO=d, VERIF_EVIDENCE_DIR=d + '/ev')
        p = subprocess.run('/venv/bin/python check.py --all', shell=True, cwd='/verif', env=env, capture_output=True, text=True)
        lines = [l for l in p.stdout.splitlines() if l.startswith(('VIOLATION', 'ANALYSIS-ERROR'))]
        fl = sorted({l.split('replay=')[1].split('/')[-1].rsplit('.json', 1)[0] for l in lines if 'replay=' in l})
        ae = [l[:160] for l in lines if l.startswith('ANALYSIS')]
        return mid, fl, ae
    finally:
        shutil.rmtree(d, ignore_errors=True)


with ThreadPoolExecutor(max_workers=int(sys.argv[2]) if len(sys.argv) > 2 else 4) as ex:
    for mid, fl, ae in ex.map(one, sorted(glob.glob(surv + '/*.py'))):
        r = desc.get(mid, {})
        print('%-34s | %-70s | %s %s' % (mid, r.get('desc', '')[:70], fl, ae))
