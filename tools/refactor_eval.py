#!/venv/bin/python
"""Run every rule on scratch copies with behaviour-preserving refactorings applied.
usage: refactor_eval.py <dir containing ref*/patch.diff> <label>   (copies them to /verif/refactors/<label>-N/)"""
import json, os, shutil, subprocess, sys, tempfile
sys.path.insert(0, '/verif')
from sa import selftest
from sa.framework import Ctx, RULES
from sa import props
from sa.model import AnalysisError
src, label = sys.argv[1], sys.argv[2]
allrules = sorted(RULES)
baseline = sorted(selftest._failing(Ctx(), allrules))
res = []
for name in sorted(os.listdir(src)):
    pf = os.path.join(src, name, 'patch.diff')
    if not name.startswith('ref') or not os.path.exists(pf):
        continue
    dst = os.path.join('/verif/refactors', '%s-%s' % (label, name))
    os.makedirs(dst, exist_ok=True)
    shutil.copy(pf, dst)
    if os.path.exists(os.path.join(src, name, 'notes.txt')):
        shutil.copy(os.path.join(src, name, 'notes.txt'), dst)
    d = tempfile.mkdtemp(prefix='rf-eval-')
    try:
        shutil.copytree('/repo/diskcache', d + '/diskcache')
        r = subprocess.run(['patch', '-p1', '-s', '-d', d, '-i', pf], capture_output=True, text=True)
        if r.returncode != 0:
            res.append((name, 'PATCH-FAILED', r.stdout[-200:]))
            continue
        try:
            c = Ctx(repo=d)
            f = set()
            errs = []
            for rid in allrules:
                try:
                    obs = RULES[rid](c)
                    if len(obs) < RULES[rid].floor:
                        errs.append('%s floor %d<%d' % (rid, len(obs), RULES[rid].floor))
                    f |= {'%s:%s' % (rid, o.key) for o in obs if not o.ok}
                except AnalysisError as e:
                    errs.append('%s: %s' % (rid, str(e)[:120]))
            new = sorted(f - set(baseline))
            status = 'QUIET' if not new and not errs else 'FALSE-ALARM'
            res.append((name, status, new + errs))
        except AnalysisError as e:
            res.append((name, 'ANALYSIS-ERROR', str(e)[:200]))
    finally:
        shutil.rmtree(d)
    with open(os.path.join(dst, 'result.json'), 'w') as fjs:
        json.dump({'id': '%s-%s' % (label, name), 'status': res[-1][1], 'detail': res[-1][2]}, fjs, indent=1)
for r in res:
    print(label, *r)
