#!/venv/bin/python
"""Confirm a seeded change and run the checks against it.
usage: seed_eval.py <dir with patch.diff demo.py notes.txt> <seed id e.g. C05-pop-select-unlocked> <property> [--suite]
Copies the artefacts to /verif/seeded/<id>/, verifies demo (clean: exit 0, changed: exit 1) in a scratch worktree,
optionally runs the test suite with the change, applies the patch to /repo, runs every check, reverts /repo."""
import json, os, shutil, subprocess, sys, tempfile, time
src, sid, prop = sys.argv[1:4]
suite = '--suite' in sys.argv
dst = os.path.join('/verif/seeded', sid)
os.makedirs(dst, exist_ok=True)
for f in ('patch.diff', 'demo.py', 'notes.txt'):
    if os.path.exists(os.path.join(src, f)) and os.path.abspath(src) != os.path.abspath(dst):
        shutil.copy(os.path.join(src, f), os.path.join(dst, f))
_old = {}
if os.path.exists(os.path.join(dst, 'meta.json')):
    try:
        _old = json.load(open(os.path.join(dst, 'meta.json')))
    except Exception:
        _old = {}
meta = {'id': sid, 'property': prop, 'needs_to_manifest': json.load(open('/verif/seeded/NEEDS.json')).get(sid, 'see notes.txt'), 'ran': []}
wt = tempfile.mkdtemp(prefix='seed-ev-')
os.rmdir(wt)
def sh(cmd, cwd=None, timeout=900):
    p = subprocess.run(cmd, shell=True, cwd=cwd, capture_output=True, text=True, timeout=timeout)
    return p.returncode, (p.stdout + p.stderr)
try:
    sh('git -C /repo worktree add -q --detach %s HEAD' % wt)
    os.makedirs(os.path.join(wt, 'seedx'))
    shutil.copy(os.path.join(dst, 'demo.py'), os.path.join(wt, 'seedx', 'demo.py'))
    os.environ['TMPDIR'] = os.path.join(wt, '.tmp')
    os.makedirs(os.environ['TMPDIR'], exist_ok=True)
    rc0, out0 = sh('/venv/bin/python seedx/demo.py', cwd=wt, timeout=600)
    rca, outa = sh('git apply %s' % os.path.join(dst, 'patch.diff'), cwd=wt)
    rc1, out1 = sh('/venv/bin/python seedx/demo.py', cwd=wt, timeout=600)
    meta['demo_clean_exit'] = rc0
    meta['patch_applies'] = rca == 0
    meta['demo_changed_exit'] = rc1
    meta['demo_changed_output'] = out1[-600:]
    meta['ran'].append('scratch worktree: demo on clean tree -> exit %d; git apply patch.diff -> %d; demo on changed tree -> exit %d' % (rc0, rca, rc1))
    rcc, _ = sh('/venv/bin/python -c "import diskcache"', cwd=wt)
    meta['imports'] = rcc == 0
    if suite:
        rcs, outs = sh('/venv/bin/python -m pytest -q -p no:cacheprovider --timeout=900 -n 6 2>&1 | grep -E "passed|failed" | tail -1', cwd=wt, timeout=1500)
        meta['suite_with_change'] = outs.strip()
        meta['ran'].append('scratch worktree: pytest with the change applied -> %s' % outs.strip())
    # every check against the changed tree (scratch worktree, evidence redirected: /repo and /verif/evidence untouched)
    evd = tempfile.mkdtemp(prefix='seed-evid-')
    t = time.time()
    rc, out = sh('VERIF_REPO=%s VERIF_EVIDENCE_DIR=%s /venv/bin/python check.py --all' % (wt, evd), cwd='/verif', timeout=900)
    shutil.rmtree(evd, ignore_errors=True)
    lines = [l for l in out.splitlines() if l.startswith(('VIOLATION', 'ANALYSIS-ERROR'))]
    detail = [l.strip() for l in out.splitlines() if l.startswith('  rule ') and '] at ' in l]
    meta['checks_exit'] = rc
    meta['violations'] = lines
    meta['violation_detail'] = sorted(set(detail))[:12]
    meta['detected_by'] = sorted({l.split('replay=')[1].split('/')[-1].split('-')[1] for l in lines if 'replay=' in l})
    meta['detected'] = bool(lines) and rc == 1
    meta['ran'].append('changed scratch worktree: VERIF_REPO=<worktree> /venv/bin/python check.py --all -> exit %d, %d VIOLATION lines (%.0fs)' % (rc, len(lines), time.time() - t))
finally:
    sh('git -C /repo worktree remove --force %s' % wt)
    shutil.rmtree(wt, ignore_errors=True)
if not suite:
    for k in ('suite_with_change', 'suite_with_change_rerun_single_process'):
        if k in _old:
            meta[k] = _old[k]
    meta['ran'] += [r for r in _old.get('ran', []) if 'pytest' in r]
with open(os.path.join(dst, 'meta.json'), 'w') as f:
    json.dump(meta, f, indent=1)
print(json.dumps({k: meta[k] for k in ('id', 'demo_clean_exit', 'demo_changed_exit', 'detected', 'detected_by', 'violation_detail') if k in meta}, indent=1)[:3000])
if suite:
    print('suite:', meta.get('suite_with_change'))
