#!/bin/bash
# re-evaluate every seeded change (demo both ways, unedited suite with the change, all checks)
cd /verif
for d in seeded/*/; do
  id=$(basename $d)
  prop=${id%%-*}
  /venv/bin/python tools/seed_eval.py $d $id $prop "$@" > /tmp/seed-eval-$id.log 2>&1
  /venv/bin/python - <<PY
import json
m=json.load(open('/verif/seeded/$id/meta.json'))
print('$id', 'clean', m.get('demo_clean_exit'), 'changed', m.get('demo_changed_exit'), 'suite', m.get('suite_with_change','-'), 'DETECTED' if m.get('detected') else 'MISSED', m.get('detected_by'))
PY
done
