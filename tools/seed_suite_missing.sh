#!/bin/bash
# run the unedited suite (single process) with the change applied for every seed that has no recorded 251-pass yet
cd /verif
for d in seeded/*/; do
  id=$(basename $d)
  [ -f $d/meta.json ] || continue
  if grep -q '251 passed' $d/meta.json; then continue; fi
  wt=/tmp/recheck-$id
  git -C /repo worktree add -q --detach $wt HEAD && (cd $wt && git apply /verif/$d/patch.diff && mkdir -p .tmp && TMPDIR=$wt/.tmp timeout 900 /venv/bin/python -m pytest -q -p no:cacheprovider --timeout=900 -n 4 2>&1 | grep -E "passed|failed" | tail -1 > /tmp/recheck-$id.txt)
  if ! grep -q "251 passed" /tmp/recheck-$id.txt; then
    (cd $wt && TMPDIR=$wt/.tmp timeout 1200 /venv/bin/python -m pytest -q -p no:cacheprovider --timeout=900 -n 0 2>&1 | grep -E "passed|failed" | tail -1 > /tmp/recheck-$id.txt)
  fi
  git -C /repo worktree remove --force $wt
  res=$(cat /tmp/recheck-$id.txt)
  /venv/bin/python - <<PY
import json
p='/verif/$d/meta.json'; m=json.load(open(p))
m['suite_with_change']="""$res""".strip()
m['ran'].append('scratch worktree: unedited pytest suite with the change applied -> '+"""$res""".strip())
json.dump(m,open(p,'w'),indent=1)
print('$id', """$res""".strip())
PY
done
