#!/bin/bash
# re-run the unedited suite (single process: the Django model tests share tests/db.sqlite3 and are flaky under xdist)
# for seeds whose recorded suite result is not "251 passed"
cd /verif
for d in seeded/*/; do
  id=$(basename $d)
  if grep -q '"suite_with_change": "251 passed' $d/meta.json; then continue; fi
  wt=/tmp/recheck-$id
  git -C /repo worktree add -q --detach $wt HEAD && (cd $wt && git apply /verif/$d/patch.diff && mkdir -p .tmp && TMPDIR=$wt/.tmp /venv/bin/python -m pytest -q -p no:cacheprovider --timeout=900 -n 0 2>&1 | grep -E "passed|failed" | tail -1 > /tmp/recheck-$id.txt)
  git -C /repo worktree remove --force $wt
  res=$(cat /tmp/recheck-$id.txt)
  /venv/bin/python - <<PY
import json
p='/verif/$d/meta.json'; m=json.load(open(p))
m['suite_with_change_rerun_single_process']="""$res""".strip()
m['ran'].append('scratch worktree: pytest -n 0 (single process) with the change applied -> '+"""$res""".strip())
json.dump(m,open(p,'w'),indent=1)
print('$id', """$res""".strip())
PY
done
