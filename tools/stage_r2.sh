#!/bin/bash
# stage and evaluate the seeds of one round-2 agent: stage_r2.sh C08
cd /verif
P=$1
for n in 1 2 3; do
  src=/tmp/w2-$P/seed$n
  [ -f $src/patch.diff ] || continue
  id=$P-r2-s$n
  mkdir -p seeded/$id; cp $src/patch.diff $src/demo.py $src/notes.txt seeded/$id/ 2>/dev/null
  /venv/bin/python tools/seed_eval.py seeded/$id $id $P > /tmp/seed-eval-$id.log 2>&1
  /venv/bin/python - <<PY
import json
m=json.load(open('/verif/seeded/$id/meta.json'))
print('$id', 'clean', m.get('demo_clean_exit'), 'changed', m.get('demo_changed_exit'), 'DETECTED' if m.get('detected') else 'MISSED', m.get('detected_by'), [d[:110] for d in m.get('violation_detail',[])[:2]])
PY
done
