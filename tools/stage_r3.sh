#!/bin/bash
# stage and evaluate one round-3 (bug hunter) seed: stage_r3.sh <agent n> <seed m> <property>
cd /verif
src=${SRC_PREFIX:-/tmp/bh}-$1/seed$2
id=$3-${TAG:-r3-bh}$1-s$2
[ -f $src/patch.diff ] || { echo "no patch in $src"; exit 0; }
mkdir -p seeded/$id; cp $src/patch.diff $src/demo.py $src/notes.txt seeded/$id/ 2>/dev/null
/venv/bin/python tools/seed_eval.py seeded/$id $id $3 > /tmp/seed-eval-$id.log 2>&1
/venv/bin/python - <<PY
import json
m=json.load(open('/verif/seeded/$id/meta.json'))
print('$id', 'clean', m.get('demo_clean_exit'), 'changed', m.get('demo_changed_exit'), 'DETECTED' if m.get('detected') else 'MISSED', m.get('detected_by'), [d[:110] for d in m.get('violation_detail',[])[:2]])
PY
